#!/usr/bin/env python3
"""Regenerates MANIFEST.json from the table below (claimed checks) and properties.jsonl."""
import json, sys
sys.path.insert(0, '/verif/py')
from manifest_data import CHECKS, HOOK_COMMITS, NOT_APPLICABLE
props = [json.loads(l) for l in open('/verif/properties.jsonl')]
checks = []
for p in props:
    pid = p['id']
    if pid not in CHECKS:
        continue
    c = CHECKS[pid]
    checks.append({
        'property_id': pid,
        'quick_cmd': 'bin/check %s --tier quick' % pid,
        'thorough_cmd': 'bin/check %s --tier thorough' % pid,
        'evidence_file': '/verif/evidence/%s.json' % pid,
        'replay_cmd_template': 'bin/check %s --replay {path}' % pid,
        'engine': c.get('engine', 'coq+correspondence'),
        'level_claimed': {'category': 'proof', 'text': c['text'], 'design_ref': c.get('design_ref', 'DESIGN.md §5 ' + pid)},
        'level_note': c['note'],
        'technique': c['technique'],
    })
na = [{'property_id': p['id'], 'reason': NOT_APPLICABLE.get(p['id'], 'check not built yet (work in progress; will be claimed)')}
      for p in props if p['id'] not in CHECKS]
m = {'version': 1, 'setup_cmd': 'bin/setup.sh',
     'hooks': {'guard': 'verif', 'enable': 'go build -tags verif (harness module replaces github.com/go-spring/log => /repo)',
               'baseline_off_cmd': 'bin/baseline_off.sh', 'source_commits': HOOK_COMMITS, 'add_only': True},
     'engines': [
         {'name': 'coq', 'path': 'coq/', 'serves_properties': sorted(CHECKS), 'kind_free_text': 'Coq 8.16.1 development: executable Gallina models (Model/), proofs (Proofs/), property theorems (Props/), extraction (Extract/)'},
         {'name': 'modelrun', 'path': 'ocaml/', 'serves_properties': sorted(CHECKS), 'kind_free_text': 'extracted models + OCaml driver'},
         {'name': 'implrun', 'path': 'harness/', 'serves_properties': sorted(CHECKS), 'kind_free_text': 'Go harness running the real implementation from /repo (build tag verif)'},
         {'name': 'check', 'path': 'bin/check', 'serves_properties': sorted(CHECKS), 'kind_free_text': 'Python orchestrator: generators, comparison, oracle, evidence'}],
     'checks': checks,
     'notes': 'Machine-checked proof in Coq over hand-written executable models, tied to /repo by a correspondence check on every run; see DESIGN.md.',
     'not_applicable': na}
json.dump(m, open('/verif/MANIFEST.json', 'w'), indent=1)
print('claimed:', [c['property_id'] for c in checks])
