"""Shared machinery for the /verif checks: builds (Coq, extracted model, Go harness),
assumption audit, running both sides, comparison, evidence, verdict."""
import hashlib, json, os, random, re, shutil, subprocess, sys, tempfile, time

VERIF = os.environ.get('VERIF_ROOT') or os.path.dirname(os.path.dirname(os.path.abspath(__file__)))   # /verif, or a snapshot of it
REPO = '/repo'
BUILD = VERIF + '/build'
COQ = VERIF + '/coq'
GO = os.environ.get('VERIF_GO', 'go1.26')
NPROC = str(os.cpu_count() or 8)

STDLIB_AXIOM_ALLOW = {
    # axioms declared by Coq's standard library that may appear (none is expected)
    'Coq.Logic.FunctionalExtensionality.functional_extensionality_dep',
    'functional_extensionality_dep', 'Eqdep.Eq_rect_eq.eq_rect_eq', 'eq_rect_eq',
    'Classical_Prop.classic', 'classic', 'proof_irrelevance', 'JMeq_eq',
}

TRUSTED_BASE = [
    'Coq 8.16.1 kernel (coqc); vm_compute used in proofs of finite sweeps and examples; native_compute not used',
    'no axioms declared; every property theorem must print "Closed under the global context"',
    'extraction: Require Extraction + ExtrOcamlBasic only (Extract Inductive for bool, option, unit, list, prod, sumbool, sumor); no Extract Constant; nat/positive/N/Z stay extracted inductives; OCaml 4.13.1; hand-written driver ocaml/*.ml',
    'correspondence check: Python generators (py/), Go harness (harness/, built with -tags verif against /repo), canonicalisation of observables',
    'hook file /repo/verif_hooks.go (build tag verif, add-only)',
    'hand-written Gallina models of the Go code (coq/Model/*.v) - tied to the code only by the correspondence check',
]


def go_env():
    e = dict(os.environ)
    e.update(GOFLAGS='-mod=mod', GOPROXY='off', GOSUMDB='off', GOTOOLCHAIN='local', CGO_ENABLED='0')
    return e


def sh(cmd, timeout=600, cwd=None, env=None, shell=False):
    t0 = time.time()
    try:
        p = subprocess.run(cmd, cwd=cwd, env=env, shell=shell, stdout=subprocess.PIPE, stderr=subprocess.STDOUT,
                           timeout=timeout, text=True, errors='replace')
        return p.returncode, p.stdout, time.time() - t0
    except subprocess.TimeoutExpired as ex:
        out = ex.stdout if isinstance(ex.stdout, str) else (ex.stdout or b'').decode('utf8', 'replace')
        return 124, (out or '') + '\n[timeout after %ss]' % timeout, time.time() - t0


def scratch_dir(tag):
    base = '/var/tmp/verif-scratch'
    os.makedirs(base, exist_ok=True)
    return tempfile.mkdtemp(prefix=tag + '-', dir=base)


# ---------------------------------------------------------------- Coq
def coq_sources():
    out = []
    for root, _, files in os.walk(COQ):
        if '/Extract' in root:
            continue
        for f in files:
            if f.endswith('.v'):
                out.append(os.path.relpath(os.path.join(root, f), COQ))
    return sorted(out)


def build_coq(clean=False):
    """Full .vo build of the Coq project (never -vos/-vok). Returns (ok, log)."""
    srcs = coq_sources()
    if clean:
        sh('find . -name "*.vo" -o -name "*.vos" -o -name "*.vok" -o -name "*.glob" -o -name ".*.aux" | xargs rm -f',
           cwd=COQ, shell=True)
    rc, out, _ = sh(['coq_makefile', '-f', '_CoqProject'] + srcs + ['-o', 'Makefile'], cwd=COQ)
    if rc != 0:
        return False, out
    rc, out, _ = sh(['timeout', '3000', 'make', '-j' + NPROC], cwd=COQ, timeout=3100)
    return rc == 0, out


def strip_coq_comments(text):
    """removes (nested) Coq comments, keeping newlines so that line numbers stay valid"""
    out, depth, i, n = [], 0, 0, len(text)
    in_str = False
    while i < n:
        c2 = text[i:i + 2]
        if depth == 0 and text[i] == '"':
            in_str = not in_str
            out.append(text[i]); i += 1
        elif not in_str and c2 == '(*':
            depth += 1; i += 2
        elif not in_str and c2 == '*)' and depth > 0:
            depth -= 1; i += 2
        else:
            out.append(text[i] if depth == 0 or text[i] == '\n' else ' ')
            i += 1
    return ''.join(out)


def forbidden_scan():
    """No Admitted/admit/Axiom/Parameter/... anywhere; Variable/Hypothesis/Context only inside Sections."""
    bad = []
    pat = re.compile(r'\b(Admitted|admit|Axiom|Axioms|Parameter|Parameters|Conjecture|Conjectures|Admit Obligations|bypass_check|'
                     r'Unset Guard Checking|Unset Positivity Checking|Unset Universe Checking|type-in-type|impredicative-set)\b')
    for rel in coq_sources() + ['Extract/Extract.v', '_CoqProject']:
        depth = 0
        path = os.path.join(COQ, rel)
        if not os.path.exists(path):
            continue
        code_text = strip_coq_comments(open(path).read())
        for n, code in enumerate(code_text.split('\n'), 1):
            if re.match(r'\s*Section\b', code):
                depth += 1
            if re.match(r'\s*End\b', code) and depth > 0:
                depth -= 1
            if pat.search(code):
                bad.append('%s:%d: %s' % (rel, n, code.strip()))
            if depth == 0 and re.match(r'\s*(Variable|Variables|Hypothesis|Hypotheses|Context)\b', code):
                bad.append('%s:%d: %s (outside a Section)' % (rel, n, code.strip()))
    return bad


def audit_props(pid):
    """Recompiles Props/<pid>.v and parses the Print Assumptions output.
    Returns dict(ok, theorems={name: [axioms]}, examples=n, log)."""
    src = os.path.join(COQ, 'Props', pid + '.v')
    text = open(src).read()
    names = re.findall(r'^\s*Print Assumptions\s+(\w+)\s*\.', text, re.M)
    thms = re.findall(r'^\s*(?:Theorem|Corollary)\s+(\w+)', text, re.M)
    examples = len(re.findall(r'^\s*Example\s+(\w+)', text, re.M))
    tmp = scratch_dir('audit')
    try:
        rc, out, _ = sh(['timeout', '900', 'coqc', '-Q', COQ, 'LogV', '-w', '-all', src, '-o', os.path.join(tmp, pid + '.vo')],
                        timeout=950)
    finally:
        shutil.rmtree(tmp, ignore_errors=True)
    res = {'ok': rc == 0, 'theorems': {}, 'examples': examples, 'log': out[-4000:], 'unprinted': []}
    if rc != 0:
        return res
    # split output in blocks, one per Print Assumptions, in order
    blocks = re.split(r'(?m)^(?=Closed under the global context|Axioms:)', out)
    blocks = [b for b in blocks if b.startswith('Closed under') or b.startswith('Axioms:')]
    if len(blocks) != len(names):
        res['ok'] = False
        res['log'] += '\n[audit] %d Print Assumptions commands but %d result blocks' % (len(names), len(blocks))
        return res
    for nm, b in zip(names, blocks):
        if b.startswith('Closed under'):
            res['theorems'][nm] = []
        else:
            ax = re.findall(r'(?m)^([A-Za-z_][\w.\']*)\s*:', b[len('Axioms:'):])
            res['theorems'][nm] = ax
            for a in ax:
                if a not in STDLIB_AXIOM_ALLOW:
                    res['ok'] = False
                    res['log'] += '\n[audit] theorem %s depends on non-allowed axiom %s' % (nm, a)
    res['unprinted'] = [t for t in thms if t not in names]
    if res['unprinted']:
        res['ok'] = False
        res['log'] += '\n[audit] theorems without Print Assumptions: %s' % res['unprinted']
    return res


# ---------------------------------------------------------------- model / impl builds
def _hash_tree(paths):
    h = hashlib.sha256()
    for p in sorted(paths):
        h.update(p.encode())
        h.update(open(p, 'rb').read())
    return h.hexdigest()


def build_model(force=False):
    srcs = [os.path.join(COQ, r) for r in coq_sources()] + [COQ + '/Extract/Extract.v']
    srcs += [os.path.join(VERIF, 'ocaml', f) for f in os.listdir(VERIF + '/ocaml') if f.endswith('.ml')]
    h = _hash_tree(srcs)
    stamp = BUILD + '/modelrun.stamp'
    if not force and os.path.exists(BUILD + '/modelrun') and os.path.exists(stamp) and open(stamp).read() == h:
        return True, 'cached'
    rc, out, _ = sh([VERIF + '/bin/build_model.sh'], timeout=1300)
    if rc == 0:
        open(stamp, 'w').write(h)
    return rc == 0, out


def build_impl(race=False):
    """Builds the Go harness against /repo's current working tree with -tags verif."""
    os.makedirs(BUILD, exist_ok=True)
    shutil.copy(REPO + '/go.sum', VERIF + '/harness/go.sum')
    out_bin = BUILD + ('/implrun-race' if race else '/implrun')
    cmd = [GO, 'build', '-tags', 'verif'] + (['-race'] if race else []) + ['-o', out_bin, '.']
    env = go_env()
    if race:
        env['CGO_ENABLED'] = '1'
    rc, out, _ = sh(cmd, cwd=VERIF + '/harness', env=env, timeout=900)
    return rc == 0, out


def run_model(family, cases_path, out_path, timeout=1800):
    rc, out, dt = sh([BUILD + '/modelrun', family, cases_path, out_path], timeout=timeout)
    return rc == 0, out


def run_impl(family, cases_path, out_path, args=(), timeout=1800, race=False, env=None):
    e = go_env()
    if env:
        e.update(env)
    rc, out, dt = sh([BUILD + ('/implrun-race' if race else '/implrun'), family, cases_path, out_path] + list(args),
                     timeout=timeout, env=e)
    return rc, out


def read_lines(path):
    with open(path, errors='replace') as f:
        return [l.rstrip('\n') for l in f if l.strip() != '']


def read_lines_keep(path):
    """like read_lines but keeps empty lines (an empty observation is meaningful)"""
    with open(path, errors='replace') as f:
        return [l.rstrip('\n') for l in f]


def write_lines(path, lines):
    with open(path, 'w') as f:
        for l in lines:
            f.write(l + '\n')


def hx(b):
    if isinstance(b, str):
        b = b.encode('utf8', 'surrogateescape')
    return b.hex() if len(b) else '-'


def unhx(s):
    return b'' if s == '-' else bytes.fromhex(s)


def coq_bytes(b):
    return '[' + ';'.join(str(x) for x in b) + ']'


# ---------------------------------------------------------------- in-Coq evaluation of a sample (keeps extraction honest)
def coq_sample_check(pid, imports, defs, pairs, timeout=600):
    """pairs: list of (gallina_term_computing_obs, gallina_term_expected) both of type `bool`-comparable via `eqb_term`.
    defs must define `sample_eqb`. Returns (ok, nbad, log)."""
    if not pairs:
        return True, 0, 'no sample'
    tmp = scratch_dir('sample')
    try:
        src = os.path.join(tmp, 'Sample.v')
        with open(src, 'w') as f:
            f.write(imports + '\n' + defs + '\n')
            f.write('Definition sample_cases := [\n' + ';\n'.join('(%s, %s)' % p for p in pairs) + '].\n')
            f.write('Definition sample_bad := length (filter (fun p => negb (sample_eqb (fst p) (snd p))) sample_cases).\n')
            f.write('Definition sample_result := Eval vm_compute in sample_bad.\nPrint sample_result.\n')
        rc, out, _ = sh(['timeout', str(timeout), 'coqc', '-Q', COQ, 'LogV', '-w', '-all', src], timeout=timeout + 30)
        m = re.search(r'sample_result\s*=\s*(\d+)', out)
        if rc != 0 or not m:
            return False, -1, out[-3000:]
        return int(m.group(1)) == 0, int(m.group(1)), out[-500:]
    finally:
        shutil.rmtree(tmp, ignore_errors=True)


# ---------------------------------------------------------------- known findings
def load_known():
    p = VERIF + '/KNOWN_FINDINGS.json'
    if not os.path.exists(p):
        return []
    return json.load(open(p)).get('findings', [])


# ---------------------------------------------------------------- verdict + evidence
class Run:
    def __init__(self, pid, tier, seed):
        self.pid, self.tier, self.seed = pid, tier, seed
        self.t0 = time.time()
        self.rng = random.Random(seed * 1000003 + int(pid[1:]))
        self.violations = []          # dict(kind, detail, replay_lines, no_input)
        self.coverage = {'evaluations': 0, 'distinct_nontrivial': 0, 'samples': []}
        self.notes = []
        self.obligations = 0
        self.discharged = 0
        self.theorems = {}
        self.assumptions = []
        self.streams = {}

    def add_violation(self, kind, detail, replay_lines, no_input=False):
        self.violations.append({'kind': kind, 'detail': detail, 'replay': replay_lines, 'no_input': no_input})

    def stream(self, name, n, nontrivial, exhaustive=False, rule=''):
        self.streams[name] = {'evaluations': n, 'distinct_nontrivial': nontrivial, 'exhaustive': exhaustive, 'rule': rule}
        self.coverage['evaluations'] += n
        self.coverage['distinct_nontrivial'] += nontrivial


def finish(run, rule, checker_cmd, extra_trusted=(), exhaustive=False, level_note=''):
    pid = run.pid
    os.makedirs(VERIF + '/evidence', exist_ok=True)
    os.makedirs(VERIF + '/replays/' + pid, exist_ok=True)
    known = [k for k in load_known() if k.get('property') == pid and k.get('status') == 'known']
    rc = 0
    reported = 0
    for i, v in enumerate(run.violations):
        matched = None
        for k in known:
            if k.get('match') and k['match'] in '\n'.join(v['replay']) + v['detail']:
                matched = k
        if matched:
            print('KNOWN-FINDING: property=%s %s' % (pid, matched['what']))
            continue
        path = '%s/replays/%s/%s-%d-%d.replay' % (VERIF, pid, run.tier, run.seed, i)
        with open(path, 'w') as f:
            f.write('# property=%s kind=%s tier=%s seed=%d\n# %s\n' % (pid, v['kind'], run.tier, run.seed, v['detail'].replace('\n', '\n# ')))
            for l in v['replay']:
                f.write(l + '\n')
        print('VIOLATION property=%s replay=%s%s' % (pid, path, ' no-failing-input-found' if v['no_input'] else ''))
        print('  ' + v['kind'] + ': ' + v['detail'].split('\n')[0][:300])
        rc = 1
        reported += 1
        if reported >= 5:
            print('  (%d further violations not listed)' % (len(run.violations) - i - 1))
            break
    cov = run.coverage
    cov['rule'] = rule
    cov['obligations'] = run.obligations
    cov['discharged'] = run.discharged
    cov['checker_cmd'] = checker_cmd
    cov['trusted_base'] = TRUSTED_BASE + list(extra_trusted)
    cov['theorems'] = run.theorems
    cov['streams'] = run.streams
    cov['exhaustive'] = exhaustive
    cov['samples'] = cov['samples'][:12]
    ev = {'property_id': pid, 'tier': run.tier, 'seed': run.seed, 'level': 'proof', 'coverage': cov,
          'assumptions': run.assumptions, 'wall_s': round(time.time() - run.t0, 2), 'violations': len(run.violations),
          'notes': run.notes}
    with open('%s/evidence/%s.json' % (VERIF, pid), 'w') as f:
        json.dump(ev, f, indent=1)
    print('%s %s: %s  evaluations=%d nontrivial=%d obligations=%d/%d wall=%.1fs' % (
        pid, run.tier, 'FAIL' if rc else 'ok', cov['evaluations'], cov['distinct_nontrivial'], run.discharged,
        run.obligations, time.time() - run.t0))
    return rc


def regen_params(run=None):
    """Translator part: regenerates coq/Gen/Params.v (level table, reserved names) and coq/Gen/Schema.v (plugin
    registry with the flattened struct fields and their tags, rotation table, property names) from the running code."""
    tmp = scratch_dir('gen')
    try:
        for fam, name in (('gen', 'Params.v'), ('gen-schema', 'Schema.v')):
            rc, out = run_impl(fam, '-', tmp + '/' + name)
            if rc != 0:
                if run is not None:
                    run.add_violation('gen-failed', 'implrun %s failed: %s' % (fam, out[-500:]), [out[-2000:]], no_input=True)
                return False
            new = open(tmp + '/' + name).read()
            dst = COQ + '/Gen/' + name
            old = open(dst).read() if os.path.exists(dst) else ''
            if new != old:
                open(dst, 'w').write(new)
                if run is not None:
                    run.notes.append('Gen/%s changed with respect to the committed copy; dependent proofs were re-checked' % name)
        return True
    finally:
        shutil.rmtree(tmp, ignore_errors=True)


def proof_stage(run, pid, extra_files=()):
    """Builds the Coq project, audits the property file; records obligations. Returns True when all proofs check."""
    regen_params(run)
    ok, log = build_coq()
    bad = forbidden_scan()
    checker = 'cd %s/coq &&' % VERIF + ' coq_makefile -f _CoqProject <all .v> -o Makefile && make -j%s  (full .vo build), then coqc Props/%s.v (Print Assumptions audit)' % (NPROC, pid)
    run.checker_cmd = checker
    if bad:
        run.add_violation('forbidden-construct', 'forbidden constructs in the Coq development: ' + '; '.join(bad[:5]),
                          bad, no_input=True)
    if not ok:
        m = re.search(r'File "\./([^"]+)", line (\d+)', log)
        where = '%s:%s' % (m.group(1), m.group(2)) if m else 'unknown file'
        run.add_violation('proof-broken', 'Coq build failed at %s; the theorems of %s are not established for the current tree' % (where, pid),
                          log[-3000:].split('\n'), no_input=True)
        run.obligations += 1
        return False
    a = audit_props(pid)
    run.theorems = a['theorems']
    n = len(a['theorems']) + a['examples']
    run.obligations += n
    if a['ok']:
        run.discharged += n
    else:
        run.add_violation('assumption-audit', 'Props/%s.v does not check cleanly: %s' % (pid, a['log'][-600:]),
                          a['log'].split('\n'), no_input=True)
        return False
    if run.tier == 'thorough':
        # independent re-check of the compiled property file and everything it depends on
        run.obligations += 1
        rc, out, dt = sh(['timeout', '3000', 'coqchk', '-silent', '-o', '-Q', '.', 'LogV', 'LogV.Props.' + pid], cwd=COQ, timeout=3100)
        summary = out[out.find('CONTEXT SUMMARY'):] if 'CONTEXT SUMMARY' in out else out[-1500:]
        clean = rc == 0 and all(re.search(r'\* %s: <none>' % re.escape(k), summary) for k in (
            'Axioms', 'Constants/Inductives relying on type-in-type', 'Constants/Inductives relying on unsafe (co)fixpoints', 'Inductives whose positivity is assumed'))
        run.coverage['coqchk'] = {'seconds': round(dt, 1), 'summary': ' '.join(summary.split())[:600]}
        run.checker_cmd += '; coqchk -silent -o -Q . LogV LogV.Props.%s' % pid
        if clean:
            run.discharged += 1
        else:
            run.add_violation('coqchk', 'coqchk does not accept LogV.Props.%s with an empty axiom list: %s' % (pid, summary[-600:]), out[-3000:].split('\n'), no_input=True)
            return False
    return True


def compare_stage(run, name, cases, model_obs, impl_obs, nontrivial_fn=None, exhaustive=False, rule='', max_report=3):
    """Correspondence: model vs implementation on the same cases, line by line."""
    run.obligations += 1
    nbad = 0
    if len(model_obs) != len(cases) or len(impl_obs) != len(cases):
        run.add_violation('harness-error', '%s: %d cases, %d model observations, %d implementation observations' % (
            name, len(cases), len(model_obs), len(impl_obs)), cases[:3], no_input=True)
        return False
    seen = set()
    for c, m, i in zip(cases, model_obs, impl_obs):
        if m != i:
            nbad += 1
            if nbad <= max_report:
                run.add_violation('mismatch:' + name,
                                  'implementation and verified model disagree on a property observable\n case: %s\n impl : %s\n model: %s' % (c[:2000], i[:2000], m[:2000]),
                                  ['family ' + name, 'case ' + c, 'impl ' + i, 'model ' + m])
        if nontrivial_fn is None or nontrivial_fn(c, m):
            seen.add(c)
    if nbad == 0:
        run.discharged += 1
    run.stream(name, len(cases), len(seen), exhaustive, rule)
    k = max(1, len(cases) // 3)
    for idx in (0, k, 2 * k):
        if idx < len(cases):
            run.coverage['samples'].append({'stream': name, 'case': cases[idx][:400], 'observation': impl_obs[idx][:400]})
    return nbad == 0


def simple_replay(pid, family, path, keep_empty=True, args=()):
    """Re-runs the `case` lines of a replay file through implementation and model."""
    import shutil as _sh
    lines = [l[5:] for l in read_lines(path) if l.startswith('case ')]
    tmp = scratch_dir(pid.lower() + 'r')
    try:
        write_lines(tmp + '/c', lines)
        run_model(family, tmp + '/c', tmp + '/m')
        run_impl(family, tmp + '/c', tmp + '/i', args=args)
        rd = read_lines_keep if keep_empty else read_lines
        rc = 0
        for c, m, i in zip(lines, rd(tmp + '/m'), rd(tmp + '/i')):
            print('case ', c[:3000], '\n impl :', i[:3000], '\n model:', m[:3000])
            if m != i:
                rc = 1
        if rc:
            print('VIOLATION property=%s replay=%s' % (pid, path))
        return rc
    finally:
        _sh.rmtree(tmp, ignore_errors=True)


def simple_family_check(run, family, stream, cases, nontrivial_fn, rule, args=(), keep_empty=True, timeout=1800, env=None):
    """Runs one family on both sides and compares line by line."""
    import shutil as _sh
    tmp = scratch_dir(family)
    try:
        cp = tmp + '/c'
        write_lines(cp, cases)
        okm, lm = run_model(family, cp, tmp + '/m', timeout=timeout)
        rc, li = run_impl(family, cp, tmp + '/i', args=args, timeout=timeout, env=env)
        if not okm or rc != 0:
            run.add_violation('harness-error', '%s: model ok=%s impl rc=%s %s %s' % (family, okm, rc, lm[-300:], li[-2500:]), [li[-3000:]], no_input=True)
            return None
        rd = read_lines_keep if keep_empty else read_lines
        mo, io = rd(tmp + '/m'), rd(tmp + '/i')
        if keep_empty:
            mo, io = mo[:len(cases)], io[:len(cases)]
        compare_stage(run, stream, cases, mo, io, nontrivial_fn=nontrivial_fn, rule=rule)
        return mo, io
    finally:
        _sh.rmtree(tmp, ignore_errors=True)


def corpus(pid):
    p = '%s/corpus/%s/cases.txt' % (VERIF, pid)
    return read_lines(p) if os.path.exists(p) else []
