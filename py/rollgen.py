"""Scenario generators and trace conversion for the rolling file appender (C13, C19)."""


def seq_scenario(rng, outage=False):
    iv = rng.choice([1, 1, 2])
    ops = []
    n = 0
    if iv == 2:
        ops.append(rng.choice(['P0', 'P1']))      # start in the first or in the second half of a 2 s interval
    if rng.random() < 0.4:
        ops.append('pre')
    ops.append('S')
    started, away = True, False
    boundaries = 0
    for _ in range(rng.randint(4, 12)):
        k = rng.random()
        if k < 0.5:
            n += 1
            if rng.random() < 0.25:    # through Append, with an event stamped some seconds earlier
                ops.append('a%d:%d:%d' % (n, rng.choice([1, 10, 100, 4000]), rng.choice([0, 1, 3, 7])))
            else:
                ops.append('w%d:%d' % (n, rng.choice([0, 1, 10, 100, 4000, 65536])))
        elif k < 0.75 and boundaries < 6:
            ops.append('B'); boundaries += 1
        elif k < 0.8 and boundaries < 5:
            ops += ['B', 'B']; boundaries += 2     # idle across a whole interval
        elif k < 0.88 and not away:
            if started:
                ops.append('X'); started = False
            else:
                ops.append('S'); started = True
        elif outage and not away and started and k < 0.95:
            ops.append('R'); away = True
        elif outage and away:
            ops.append('U'); away = False
        else:
            ops.append('s%d' % rng.choice([5, 50, 200]))
    if away:
        ops += ['B', 'w%d:5' % (n + 1), 'U', 'B', 'w%d:5' % (n + 2)]
        n += 2
    n += 1
    ops.append('w%d:3' % n)
    return '%d %s' % (iv, ' '.join(ops))


def to_model_case(case, obs):
    """(scenario, implementation observation) -> (model case, implementation listing with the lost ids appended)"""
    parts = obs.split(' | ')
    trace, listing, notes = parts[0], parts[1], parts[2] if len(parts) > 2 else ''
    toks = trace.split()
    if not toks:
        return None, None, notes
    t0 = toks[0].split('@')[1]
    iv = case.split()[0]
    written = [t.split('@')[0][1:] for t in toks if t.startswith('w')]
    present = set()
    for f in listing.split(';'):
        if '=' in f:
            present.update(x for x in f.split('=')[1].split(',') if x)
    lost = [w for w in written if w not in present]
    return '%s %s %s' % (iv, t0, ' '.join(toks)), '%s | lost=%s' % (listing, ','.join(lost)), notes
