"""C07 - JSON layout: one valid JSON object per event that decodes to the logged data.
   (c08.py reuses run_events for the text layout.)"""
import os, shutil
import common, evgen
from common import hx


def gen_cases(run, which):
    rng = run.rng
    g = evgen.Gen(rng)
    n = 6000 if run.tier == 'quick' else 150000
    cases = common.corpus('C07') + common.corpus('C08')
    for _ in range(n):
        ev = g.event()
        cases.append(ev)
        if rng.random() < 0.06:     # histories: the next event happens at the same instant (same Unix second, or the adjacent one) in another zone
            at = g.same_instant_elsewhere(ev)
            if at:
                cases.append(g.event(at=at))
    cases += [g.deep_event(d) for d in (1, 2, 3, 4, 5, 17, 64, 100, 120, 126, 127, 128, 129, 130, 200, 255, 256, 257, 300, 1000)]   # across the wrap points of any 8-bit depth counter
    # widths sweep for the file:line clause
    for W in range(-5, 201, 1 if run.tier == 'thorough' else 7):
        cases.append(g.event(widths=[W]))
    return cases


def run_events(run, cases, tmp):
    """returns list of (case, resolved, impl_json, impl_text, model_json, model_text, wf)"""
    cp = tmp + '/ev.cases'
    common.write_lines(cp, cases)
    rc, li = common.run_impl('c07', cp, tmp + '/ev.i', timeout=3000)
    io = common.read_lines(tmp + '/ev.i')
    if rc != 0 or len(io) != len(cases):
        run.add_violation('harness-error', 'c07 impl rc=%s lines=%d/%d %s' % (rc, len(io), len(cases), li[-1500:]), [li[-2000:]], no_input=True)
        return None
    parts = [l.split(' | ') for l in io]
    bad = [c for c, p in zip(cases, parts) if len(p) != 3]
    if bad:
        run.add_violation('harness-error', 'c07 harness could not run a case: ' + bad[0][:300], bad[:3], no_input=True)
        return None
    resolved = [p[0] for p in parts]
    common.write_lines(tmp + '/ev.res', resolved)
    okm, lm = common.run_model('c07', tmp + '/ev.res', tmp + '/ev.m', timeout=3000)
    mo = common.read_lines(tmp + '/ev.m')
    if not okm or len(mo) != len(cases):
        run.add_violation('harness-error', 'c07 model ok=%s lines=%d/%d %s' % (okm, len(mo), len(cases), lm[-1500:]), [lm[-2000:]], no_input=True)
        return None
    out = []
    for c, p, m in zip(cases, parts, mo):
        mj, mt, wf = m.split(' | ')
        out.append((c, p[0], p[1], p[2], mj, mt, wf))
    return out


def kinds_of(case):
    toks = case.split()
    return {t for t in toks if t in ('B', 'BP', 'BS', 'I', 'IP', 'IS', 'U', 'UP', 'US', 'F', 'FP', 'FS', 'S', 'SP', 'SS', 'NIL', 'R', 'ANY', 'O', 'ARR', 'MAP', 'MSG', 'MSGF')}


def check(run):
    tmp = common.scratch_dir('c07')
    try:
        cases = gen_cases(run, 'json')
        rows = run_events(run, cases, tmp)
        if rows is None:
            return 'harness error'
        # 1. correspondence: JSONLayout.ToBytes == json_layout, byte for byte
        run.obligations += 1
        mism = [r for r in rows if r[2] != r[4]]
        # 2. hypotheses of the theorems hold on the generated cases (non-vacuity, measured)
        nwf = sum(1 for r in rows if r[6] == '1')
        # 3. spec-side oracle on the implementation's bytes: the verified parser must return the logged data
        ocases = ['%s | %s' % (r[1], r[2]) for r in rows if not r[2].startswith('PANIC')]
        common.write_lines(tmp + '/o.cases', ocases)
        common.run_model('c07o', tmp + '/o.cases', tmp + '/o.out', timeout=3000)
        verd = common.read_lines(tmp + '/o.out')
        run.obligations += 1
        badv = [(c, v) for c, v in zip(ocases, verd) if v not in ('ok',)]
        panics = [r for r in rows if r[2].startswith('PANIC')]
        for r in panics[:2]:
            run.add_violation('panic', 'JSONLayout.ToBytes panicked: ' + bytes.fromhex(r[2][6:]).decode('utf8', 'replace'), ['family c07', 'case ' + r[0]])
        if badv:
            for c, v in badv[:3]:
                run.add_violation('oracle:c07', 'the emitted line does not decode to the logged data (%s)' % v,
                                  ['family c07', 'case ' + c.split(' | ')[0], 'impl ' + c.split(' | ')[1], 'verdict ' + v])
        elif not panics:
            run.discharged += 1
        if mism and not badv and not panics:
            r = mism[0]
            run.add_violation('correspondence:c07', 'JSONLayout.ToBytes differs from the verified model json_layout on %d cases but every output still decodes to the logged data (theorems c07_* no longer cover the code)' % len(mism),
                              ['broken: correspondence c07/json_layout (theorems c07_encoder_is_printer, c07_decodes)', 'case ' + r[1], 'impl ' + r[2], 'model ' + r[4]], no_input=True)
        elif not mism:
            run.discharged += 1
        kinds = {}
        for r in rows:
            for k in kinds_of(r[0]):
                kinds[k] = kinds.get(k, 0) + 1
        nontriv = len({r[0] for r in rows if len(kinds_of(r[0])) >= 2})
        run.stream('c07/json_layout', len(rows), nontriv, False, 'events built from every public constructor (see distribution); non-trivial = at least two different constructor kinds in the event')
        run.coverage['distribution'] = {'constructor_kinds': kinds, 'cases_satisfying_theorem_hypotheses(wf_event)': nwf, 'cases': len(rows)}
        for idx in (0, len(rows) // 2, len(rows) - 1):
            r = rows[idx]
            run.coverage['samples'].append({'stream': 'c07', 'case': r[1][:300], 'json': bytes.fromhex(r[2]).decode('utf8', 'replace')[:300] if not r[2].startswith('PANIC') else r[2]})
        # 4. in-Coq evaluation of a few cases is covered by Example c07_ex (vm_compute of the same functions)
    finally:
        shutil.rmtree(tmp, ignore_errors=True)
    return 'JSONLayout.ToBytes vs verified model, byte for byte; verified parser applied to the implementation output must yield the logged data'


def replay(run, path):
    lines = [l[5:] for l in common.read_lines(path) if l.startswith('case ')]
    tmp = common.scratch_dir('c07r')
    rows = run_events(run, lines, tmp)
    rc = 0
    for r in rows or []:
        print('case', r[0][:500], '\n impl json :', r[2][:600], '\n model json:', r[4][:600], '\n impl text :', r[3][:600], '\n model text:', r[5][:600])
        if r[2] != r[4] or r[3] != r[5]:
            rc = 1
    if rc:
        print('VIOLATION property=%s replay=%s' % (run.pid, path))
    shutil.rmtree(tmp, ignore_errors=True)
    return rc
