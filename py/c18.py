"""C18 - tag names: exactly the documented language is accepted; idempotent registry."""
import itertools, os, re
import common
from common import hx

ALPHA = [b'a', b'z', b'0', b'9', b'_', b'A', b'-', b' ', b'\xc3', b'\x00']
TAGRE = re.compile(rb'^_?[a-z0-9]+(_[a-z0-9]+){0,3}$')


def go_regexp_oracle(s: bytes) -> bool:
    return 3 <= len(s) <= 36 and TAGRE.match(s) is not None and b'\n' not in s


def gen(run):
    rng = run.rng
    quick = run.tier == 'quick'
    valid = []
    # exhaustive window over the boundary alphabet
    maxlen = 5 if quick else 7
    for n in range(0, maxlen + 1):
        for t in itertools.product(ALPHA, repeat=n):
            valid.append(b''.join(t))
    n_window = len(valid)
    # all segment-length compositions at total lengths 2..38 (1..5 segments, optional leading underscore)
    comps = []
    def compositions(total, parts):
        if parts == 1:
            yield (total,)
            return
        for first in range(1, total - parts + 2):
            for rest in compositions(total - first, parts - 1):
                yield (first,) + rest
    for total in range(2, 39):
        for lead in (0, 1):
            for parts in range(1, 6):
                body = total - lead - (parts - 1)
                if body < parts:
                    continue
                allc = list(compositions(body, parts))
                if len(allc) > (40 if quick else 400):
                    allc = rng.sample(allc, 40 if quick else 400)
                for comp in allc:
                    segs = [bytes(rng.choice(b'abcxyz0189') for _ in range(k)) for k in comp]
                    comps.append(b'_' * lead + b'_'.join(segs))
    valid += comps
    # random strings over all bytes and near-miss mutations of valid tags
    for _ in range(3000 if quick else 200000):
        n = rng.choice([0, 1, 2, 3, 4, 8, 20, 35, 36, 37, 38, 60])
        if rng.random() < 0.5:
            valid.append(bytes(rng.randrange(256) for _ in range(n)))
        else:
            segs = [bytes(rng.choice(b'abcdefghijklmnopqrstuvwxyz0123456789') for _ in range(rng.randint(1, 9))) for _ in range(rng.randint(1, 5))]
            s = bytearray((b'_' if rng.random() < 0.5 else b'') + b'_'.join(segs))
            if s and rng.random() < 0.5:
                i = rng.randrange(len(s))
                s[i:i + 1] = rng.choice([b'_', b'__', b'A', b'-', b'', b'\xff', b'a'])
            valid.append(bytes(s[:rng.choice([36, 37, 40])]))
    # alphabet clause, exhaustively per byte: every byte value substituted at / inserted before every position of a few valid tags
    for base in (b'abc', b'_a_b', b'app_def_x9', b'a0_b1_c2_d3', b'z' * 36):
        for pos in range(len(base) + 1):
            for v in range(256):
                if pos < len(base):
                    valid.append(base[:pos] + bytes([v]) + base[pos + 1:])
                valid.append((base[:pos] + bytes([v]) + base[pos:])[:40])
    # well-formed multi-byte UTF-8 letters and digits (lower-case letters and decimal digits of other scripts) inside otherwise valid layouts
    for base in (b'abc', b'_a_b', b'app_def_x9', b'ab'):
        for pos in range(len(base) + 1):
            for ch in ('\u00e9', '\u00df', '\u03b1', '\u0663', '\uff41', '\uff11', '\U0001d4ea', '\u0430', '\u00b5', '\u2170'):
                valid.append(base[:pos] + ch.encode() + base[pos:])
                if pos < len(base):
                    valid.append(base[:pos] + ch.encode() + base[pos + 1:])
    cases = ['v ' + hx(s) for s in valid]
    # registry histories (the Go registry is global and never shrinks: one cumulative history)
    hist = ['r ' + hx(b'_app_def') + ' ' + hx(b'_biz_def')]
    pool = [s for s in comps if go_regexp_oracle(s)][:60] + [b'Ab', b'a__b', b'ab', b'_', b'a_b_c_d_e']
    # names that are one normalisation step away from a valid (possibly already registered) one: the registry must refuse them, not repair them
    for base in pool[:12] + [b'_app_def', b'abc']:
        for pre, post in ((b' ', b''), (b'', b' '), (b'\t', b' '), (b'', b'\n'), (b'\n', b''), (b'', b'\r\n'), (b'\x0b', b''), (b'', b'\x0c'), (b'\xc2\xa0', b''), (b'', b'\x00')):
            pool.append(pre + base + post)
        pool += [base.upper(), base.capitalize(), base + b'_', b'__' + base.lstrip(b'_'), base.replace(b'_', b'-'), base.replace(b'_', b'.')]
    for _ in range(40 if quick else 400):
        ops = [rng.choice(pool) for _ in range(rng.randint(1, 8))]
        hist.append('r ' + ' '.join(hx(o) for o in ops))
    # the helpers at the length limit: two-part names (empty action) and three-part names of exactly 35, 36 and 37 characters
    for m in (b'app', b'biz', b'rpc'):
        for total in (35, 36, 37):
            sub = bytes(rng.choice(b'abcxyz09') for _ in range(total - 2 - len(m)))          # _<m>_<sub>
            hist.append('b %s %s %s' % (hx(m), hx(sub), hx(b'')))
            sub2 = bytes(rng.choice(b'abcxyz09') for _ in range(total - 3 - len(m) - 5))     # _<m>_<sub>_<act5>
            hist.append('b %s %s %s' % (hx(m), hx(sub2), hx(b'abcde')))
    # a configuration comes and goes in the middle of the history: registration is refused while it is live and works again afterwards,
    # and the list keeps showing exactly what was registered
    for k in range(3):
        hist.append('R ' + hx(b'live_try_%d' % k))
        hist.append('r ' + ' '.join(hx(o) for o in [b'after_cfg_%d' % k, b'_app_def', rng.choice(pool)]))
        hist.append('b %s %s %s' % (hx(b'rpc'), hx(b'late%d' % k), hx(b'x')))
    # a long history: several hundred distinct names, then every earlier name again (the registry must hand back the same tag
    # object however much it has grown in between)
    many = [('t%03d_x' % i).encode() for i in range(150 if quick else 1500)]
    hist.append('r ' + ' '.join(hx(o) for o in many))
    hist.append('r ' + ' '.join(hx(o) for o in [b'_app_def', b'_biz_def'] + pool[:20] + many[:80] + many[-5:]))
    for m in (b'app', b'biz', b'rpc'):
        for _ in range(20 if quick else 200):
            sub = bytes(rng.choice(b'abcxyz09') for _ in range(rng.randint(0, 14)))
            act = bytes(rng.choice(b'abcxyz09') for _ in range(rng.choice([0, 0, 1, 5, 17])))
            if rng.random() < 0.15:
                sub = sub + rng.choice([b'_', b'A', b'_x', b'-'])
            if rng.random() < 0.35:     # multi-word parts: each part is fine by itself, the assembled name may have more than four segments
                words = lambda k: b'_'.join(bytes(rng.choice(b'abcxyz09') for _ in range(rng.randint(1, 4))) for _ in range(k))
                sub, act = words(rng.randint(1, 3)), (words(rng.randint(1, 3)) if rng.random() < 0.7 else b'')
            hist.append('b %s %s %s' % (hx(m), hx(sub), hx(act)))
    return cases, n_window, hist


def check(run):
    cases, n_window, hist = gen(run)
    corpus = common.read_lines(common.VERIF + '/corpus/C18/cases.txt') if os.path.exists(common.VERIF + '/corpus/C18/cases.txt') else []
    cases = corpus + cases
    tmp = common.scratch_dir('c18')
    try:
        for name, cs in (('valid', cases), ('registry', hist)):
            cp, mp, ip = tmp + '/%s.cases' % name, tmp + '/%s.model' % name, tmp + '/%s.impl' % name
            common.write_lines(cp, cs)
            okm, lm = common.run_model('c18', cp, mp)
            rc, li = common.run_impl('c18', cp, ip)
            if not okm or rc != 0:
                run.add_violation('harness-error', 'model ok=%s impl rc=%s: %s %s' % (okm, rc, lm[-500:], li[-1500:]), [li[-3000:]], no_input=True)
                continue
            mo, io = common.read_lines(mp), common.read_lines(ip)
            if name == 'valid':
                common.compare_stage(run, 'c18/isValidTag', cs, mo, io,
                                     nontrivial_fn=lambda c, m: True, exhaustive=True,
                                     rule='accept/reject of isValidTag vs the verified decision procedure for tag_lang')
                # independent oracle: regexp for the documented language, applied to the implementation's answers
                bad = [c for c, i in zip(cs, io) if (i == '1') != go_regexp_oracle(common.unhx(c.split()[1]))]
                run.obligations += 1
                if bad:
                    for c in bad[:2]:
                        run.add_violation('oracle:regexp', 'isValidTag disagrees with the documented tag language on this input', ['family c18/isValidTag', 'case ' + c])
                else:
                    run.discharged += 1
            else:
                common.compare_stage(run, 'c18/registry', cs, mo, io, rule='RegisterTag/BuildTag histories: per-call outcome (ok+same pointer / panic), GetAllTags after every history')
        # in-Coq evaluation of a sample of the same cases (extraction honesty)
        sample = [c for c in cases[:120]] + run.rng.sample(cases, min(80, len(cases)))
        mo = dict(zip(cases, common.read_lines(tmp + '/valid.model')))
        pairs = [('is_valid_tag %s%%N' % common.coq_bytes(common.unhx(c.split()[1])), 'true' if mo[c] == '1' else 'false') for c in sample]
        ok, nbad, log = common.coq_sample_check('C18', 'From LogV Require Import Base.Bytes Model.Tag.', 'Definition sample_eqb := Bool.eqb.', pairs)
        run.obligations += 1
        if ok:
            run.discharged += 1
        else:
            run.add_violation('extraction-mismatch', 'vm_compute inside Coq disagrees with the extracted model on %d sample cases: %s' % (nbad, log), [log], no_input=True)
        run.coverage['window'] = {'alphabet': [a.hex() for a in ALPHA], 'max_len': 5 if run.tier == 'quick' else 7, 'strings': n_window}
        run.exhaustive = True
    finally:
        import shutil
        shutil.rmtree(tmp, ignore_errors=True)
    return ('exhaustive: every string of length <= %d over the 10-symbol boundary alphabet; sampled segment-length compositions at total lengths 2-38; '
            'random strings over all bytes and one-edit mutations of valid tags; cumulative RegisterTag/BuildTag histories. '
            'A case counts as distinct non-trivial when it is a distinct input string / history (all are compared with the verified model).' % (5 if run.tier == 'quick' else 7))


def replay(run, path):
    lines = [l for l in common.read_lines(path) if l.startswith('case ')]
    tmp = common.scratch_dir('c18r')
    cp = tmp + '/c'
    common.write_lines(cp, [l[5:] for l in lines])
    common.run_model('c18', cp, tmp + '/m'); common.run_impl('c18', cp, tmp + '/i')
    rc = 0
    for c, m, i in zip(lines, common.read_lines(tmp + '/m'), common.read_lines(tmp + '/i')):
        print(c, '\n impl :', i, '\n model:', m)
        if m != i:
            rc = 1
            print('VIOLATION property=C18 replay=' + path)
    return rc
