"""C15 - configuration resolves as declared; bad configuration is an error, not a panic."""
import itertools, shutil
import common
from common import hx
import cfggen


def run_pair(run, family, stream, cases, rule, args=(), impl_family=None, timeout=1800):
    """model vs implementation; cases the model flags as ambiguous (two keys with one normalised form) are dropped"""
    tmp = common.scratch_dir(family)
    try:
        cp = tmp + '/c'
        common.write_lines(cp, cases)
        okm, lm = common.run_model(family, cp, tmp + '/m', timeout=timeout)
        if not okm:
            run.add_violation('harness-error', '%s: model run failed %s' % (family, lm[-500:]), [lm[-2000:]], no_input=True)
            return None
        mo = common.read_lines_keep(tmp + '/m')[:len(cases)]
        keep = [i for i, m in enumerate(mo) if m != 'ambiguous']
        dropped = len(cases) - len(keep)
        cases = [cases[i] for i in keep]
        mo = [mo[i] for i in keep]
        common.write_lines(cp, cases)
        rc, li = common.run_impl(impl_family or family, cp, tmp + '/i', args=args, timeout=timeout)
        if rc != 0:
            run.add_violation('harness-error', '%s: implementation run rc=%s %s' % (family, rc, li[-2500:]), [li[-3000:]], no_input=True)
            return None
        io = common.read_lines_keep(tmp + '/i')[:len(cases)]
        # the configuration resolved (model: ok) but the OS refused to open a configured file: start-up, not resolution
        nfs = sum(1 for m, i in zip(mo, io) if i == 'err-fs' and m.startswith('ok'))
        io = [m if (i == 'err-fs' and m.startswith('ok')) else i for m, i in zip(mo, io)]
        if nfs:
            run.coverage.setdefault('notes', []).append('%s: %d cases resolved in the model and failed in the implementation with an *fs.PathError while opening a configured file (OS outcome, not compared)' % (stream, nfs))
        common.compare_stage(run, stream, cases, mo, io, rule=rule + ('' if not dropped else ' (%d generated maps dropped as ambiguous: two keys with the same normalised form)' % dropped))
        return cases, mo, io
    finally:
        shutil.rmtree(tmp, ignore_errors=True)


def totality(run, stream, cases, io):
    """for every configuration map: nil or error, never a panic, and a failed Refresh leaves the package reusable"""
    run.obligations += 1
    bad = [(c, o) for c, o in zip(cases, io) if o.startswith('panic') or o.startswith('timeout') or 'STILL-INITIALISED' in o]
    for c, o in bad[:3]:
        run.add_violation('oracle:' + stream + '/totality', 'configuration makes the implementation panic or never return (or leaves it initialised after a failure): ' + o[:300],
                          ['family ' + stream.split('/')[0].replace('c15/', ''), 'case ' + c, 'impl ' + o[:1500]])
    if not bad:
        run.discharged += 1


def check(run):
    rng = run.rng
    quick = run.tier == 'quick'
    g = cfggen.ConfigGen(rng)
    # ---- 1. toCamelKey ----
    alpha = [b'a', b'Z', b'0', b'.', b'-', b'_', b'!']
    keys = []
    for n in range(0, (5 if quick else 7) + 1):
        for t in itertools.product(alpha, repeat=n):
            keys.append(b''.join(t))
    nwin = len(keys)
    for _ in range(2000 if quick else 100000):
        keys.append(bytes(rng.choice(b'abXY.-_!09 \xc3\xa9[]') for _ in range(rng.randint(1, 24))))
    for words in (['file', 'dir'], ['buffer', 'full', 'policy'], ['appender', 'ref'], ['a', 'b', 'c', 'd'], ['x1', '2y'], ['file', 'line', 'length']):
        for st in cfggen.STYLES:
            keys.append(('appender.' + cfggen.spell(words, st) + '.' + cfggen.spell(words, 'kebab')).encode())
    res = run_pair(run, 'c15k', 'c15/toCamelKey', [hx(k) for k in keys],
                   'toCamelKey byte for byte: every string of length <= %d over {a Z 0 . - _ !} (%d), random strings, the five spellings of the attribute names' % (5 if quick else 7, nwin))
    # ---- 2-4. configurations ----
    canon, rend, groups = [], [], []
    for _ in range(150 if quick else 6000):
        c = g.valid()
        rs = g.renderings(c, 4)
        if len(rs) < 2:
            continue
        groups.append((len(rend), len(rs)))
        rend += rs
        canon.append(c)
    muts = []
    for m in rend:
        for _ in range(2 if quick else 3):
            mm, what = g.mutate(m)
            if rng.random() < 0.3:
                mm, _ = g.mutate(mm)
            muts.append(mm)
    corpus = common.corpus('C15')
    allmaps = [cfggen.encode(m) for m in rend] + [cfggen.encode(m) for m in muts]
    # toStorage
    run_pair(run, 'c15s', 'c15/toStorage', corpus + allmaps,
             'toStorage: error or the flattened key/value data, on %d renderings of valid configurations and %d mutations (hostile keys, conflicts, malformed expressions)' % (len(rend), len(muts)))
    # Refresh
    r = run_pair(run, 'c15r', 'c15/Refresh', corpus + allmaps,
                 'Refresh: nil (with the instantiated appenders and loggers, every injected field) or error, on valid configurations in equivalent renderings and on mutations')
    if r:
        cases, mo, io = r
        totality(run, 'c15/Refresh', cases, io)
        nok = sum(1 for o in io if o.startswith('ok'))
        run.coverage.setdefault('distribution', {})['Refresh'] = {'ok': nok, 'err': sum(1 for o in io if o.startswith('err')), 'other': len(io) - nok - sum(1 for o in io if o.startswith('err'))}
        # equivalent renderings give identical observations (independent of the model)
        obs = dict(zip(cases, io))
        run.obligations += 1
        bad = 0
        for start, n in groups:
            os_ = [obs.get(cfggen.encode(m)) for m in rend[start:start + n]]
            os_ = [o for o in os_ if o is not None]
            if len(set(os_)) > 1:
                bad += 1
                if bad <= 2:
                    a = rend[start]
                    b = [m for m in rend[start:start + n] if obs.get(cfggen.encode(m)) != obs.get(cfggen.encode(a))][0]
                    run.add_violation('oracle:c15/equivalent-renderings', 'two renderings of one configuration (key spelling / inline expression vs flat keys) are resolved differently',
                                      ['family c15r', 'case ' + cfggen.encode(a), 'case ' + cfggen.encode(b), 'first : %r' % a, 'second: %r' % b])
        if not bad:
            run.discharged += 1
        run.stream('c15/equivalent-renderings', len(groups), len(groups), False, 'each valid configuration in 2-4 renderings (camel/kebab/snake/Pascal/mixed spellings per key segment, sub-trees inline as name! expressions, nested or flat): identical outcome required')
        # valid configurations must be accepted
        run.obligations += 1
        rej = [m for m in rend if obs.get(cfggen.encode(m), 'ok').startswith('err')]
        for m in rej[:2]:
            run.add_violation('oracle:c15/valid-accepted', 'a configuration built from registered types, declared attributes and well-typed values is rejected', ['family c15r', 'case ' + cfggen.encode(m), repr(m)])
        if not rej:
            run.discharged += 1
    # every registered logger and appender type: the minimal configurations of theorem c15_all_types_instantiable on the real code
    tmp = common.scratch_dir('c15min')
    try:
        common.write_lines(tmp + '/n', [str(i) for i in range(64)])
        common.run_model('c15min', tmp + '/n', tmp + '/cfgs')
        mins = [l for l in common.read_lines(tmp + '/cfgs') if l != 'end']
    finally:
        shutil.rmtree(tmp, ignore_errors=True)
    r = run_pair(run, 'c15r', 'c15/instantiable', mins, 'the minimal configuration of every registered logger and appender type (generated by the model from the regenerated registry) is accepted by Refresh')
    if r:
        run.obligations += 1
        bad = [(c, o) for c, o in zip(r[0], r[2]) if not o.startswith('ok')]
        for c, o in bad[:2]:
            run.add_violation('oracle:c15/instantiable', 'a registered logger/appender type cannot be instantiated from its minimal configuration: ' + o[:200], ['family c15r', 'case ' + c, 'impl ' + o[:500]])
        if not bad and len(mins) >= 10:
            run.discharged += 1
        elif not bad:
            run.add_violation('harness-error', 'only %d minimal configurations generated' % len(mins), [], no_input=True)
    # Refresh with a named handle registered
    sub = [cfggen.encode(m) for m in rend[:60 if quick else 1500]]
    r = run_pair(run, 'c15rh', 'c15/Refresh+handle', sub, 'same with GetLogger("audit") called first: Refresh fails unless a logger named audit is configured', args=['audit'], impl_family='c15r')
    if r:
        totality(run, 'c15/Refresh+handle', r[0], r[2])
    # NewPlugin on every registered plugin type and the harness-defined shapes
    pcases = []
    builtin = [('appender', n) for n in ('Console', 'Discard', 'File', 'RollingFile')] + [('logger', n) for n in ('Logger', 'AsyncLogger', 'Discard', 'Console', 'File', 'RollingFile')] + \
              [('layout', 'TextLayout'), ('layout', 'JSONLayout'), ('appenderRef', 'AppenderRef')]
    for m in (rend + muts)[:: (3 if quick else 1)]:
        pref = [k for k in m if cfggen.camel(k).endswith('.type') and k.count('.') == 2]
        for k in pref[:2]:
            sect = cfggen.camel(k).split('.')[0]
            pt, name = rng.choice([b for b in builtin if b[0] == sect] or builtin)
            pcases.append('%s %s %s %s' % (hx(pt), hx(name), hx(cfggen.camel(k)[:-5]), cfggen.encode(m)))
    for _ in range(600 if quick else 30000):
        m = cfggen.vt_case(rng)
        name = rng.choice(['VtAll'] * 12 + ['VtBadKind', 'VtBadElem', 'VtNoName', 'VtEmptyDefault', 'Missing'])
        pcases.append('%s %s %s %s' % (hx('vtest'), hx(name), hx(rng.choice(['p', 'p', 'p', 'q', 'p.x'])), cfggen.encode(m)))
    r = run_pair(run, 'c15p', 'c15/NewPlugin', pcases,
                 'NewPlugin: error or every injected field of the instance (nested elements included), for all registered plugin types and harness-defined plugins covering single / indexed / defaulted / optional elements and every attribute kind')
    if r:
        totality(run, 'c15/NewPlugin', r[0], r[2])
        run.coverage.setdefault('distribution', {})['NewPlugin'] = {'ok': sum(1 for o in r[2] if o.startswith('ok')), 'err': sum(1 for o in r[2] if o.startswith('err'))}
    return ('toCamelKey exhaustively on a boundary alphabet window; generated configurations over all registered plugin types (every logger and appender kind, layouts, appender references single and indexed) in equivalent renderings, '
            'their mutations (ill-typed values, unknown types, missing elements, dangling references, conflicting and malformed keys, malformed expressions, ${} references), at three levels: toStorage, NewPlugin, Refresh')


def replay(run, path):
    lines = common.read_lines(path)
    fam = [l.split()[1] for l in lines if l.startswith('family ')]
    fam = fam[0] if fam else 'c15r'
    fam = {'c15/toCamelKey': 'c15k', 'c15/toStorage': 'c15s', 'c15/Refresh': 'c15r', 'c15/Refresh+handle': 'c15rh', 'c15/NewPlugin': 'c15p'}.get(fam, fam)
    cases = [l[5:] for l in lines if l.startswith('case ')]
    tmp = common.scratch_dir('c15r')
    try:
        common.write_lines(tmp + '/c', cases)
        common.run_model(fam, tmp + '/c', tmp + '/m')
        common.run_impl('c15r' if fam == 'c15rh' else fam, tmp + '/c', tmp + '/i', args=['audit'] if fam == 'c15rh' else [])
        rc = 0
        io = common.read_lines_keep(tmp + '/i')
        for c, m, i in zip(cases, common.read_lines_keep(tmp + '/m'), io):
            print('case ', c[:2000], '\n impl :', i[:2000], '\n model:', m[:2000])
            if m != i or i.startswith('panic'):
                rc = 1
        if len(set(io[:len(cases)])) > 1 and any('second:' in l for l in lines):
            rc = 1
        if rc:
            print('VIOLATION property=C15 replay=' + path)
        return rc
    finally:
        shutil.rmtree(tmp, ignore_errors=True)
