"""C11 - reported file:line is the caller's statement, in both caller-lookup modes."""
import os, shutil
import common


def run_matrix(run, name, binary=None):
    cases = ['1 0 2', '1 1 3', '0 0 1', '0 1 1', '1 1 1', '1 0 1']
    tmp = common.scratch_dir('c11')
    try:
        common.write_lines(tmp + '/c', cases)
        if binary:
            rc, out, _ = common.sh([binary, 'c11', tmp + '/c', tmp + '/i'], timeout=600, env=common.go_env())
        else:
            rc, out = common.run_impl('c11', tmp + '/c', tmp + '/i')
        io = common.read_lines(tmp + '/i')
        run.obligations += 1
        if rc != 0 or len(io) != len(cases):
            run.add_violation('harness-error', 'c11 rc=%s %s' % (rc, out[-1500:]), [out[-2000:]], no_input=True)
            return
        nsites, bad = 0, []
        for c, o in zip(cases, io):
            for t in o.split():
                nsites += 1
                if not t.endswith('=ok'):
                    bad.append((c, t))
        for c, t in bad[:4]:
            run.add_violation('oracle:' + name, 'reported location differs from the statement that called the logging function: ' + t,
                              ['family c11', 'case ' + c, 'site ' + t])
        if not bad:
            run.discharged += 1
        run.stream(name, nsites, nsites, True, 'complete matrix: 15 entry points x {plain, closure, deferred closure, goroutine} + {inlinable helper, generic helper, non-inlined helper, '
                   'method value, Record with skip 2/3 through wrappers, in a closure} x {default, fast} x repeated calls from the same site (cache hits) x enableCaller on/off; '
                   'expected location = runtime.Caller on the same source line')
        run.coverage['samples'].append({'stream': name, 'case': cases[1], 'observation': io[1][:300]})
    finally:
        shutil.rmtree(tmp, ignore_errors=True)


def run_concurrent(run):
    cases = ['1 8 4000', '1 2 20000', '1 16 2000', '0 8 2000'] if run.tier == 'quick' else ['1 8 40000', '1 2 200000', '1 16 20000', '1 64 5000', '0 8 20000']
    tmp = common.scratch_dir('c11c')
    try:
        common.write_lines(tmp + '/c', cases)
        rc, out = common.run_impl('c11c', tmp + '/c', tmp + '/i', timeout=1800)
        io = common.read_lines(tmp + '/i')
        run.obligations += 1
        if rc != 0 or len(io) != len(cases):
            run.add_violation('harness-error', 'c11c rc=%s %s' % (rc, out[-1500:]), [out[-2000:]], no_input=True)
            return
        bad = [(c, o) for c, o in zip(cases, io) if len(o.split()) < 2 or o.split()[1] != '0']
        for c, o in bad[:2]:
            run.add_violation('oracle:c11/concurrent', 'under concurrent callers the reported location is not the calling statement: ' + o[:300], ['family c11c', 'case ' + c, 'impl ' + o[:1000]])
        if not bad:
            run.discharged += 1
        n = sum(int(o.split()[0]) for o in io if o.split()[0].isdigit())
        run.stream('c11/concurrent', n, n, False, '2-64 goroutines released from a barrier, each logging from its own statements (15 entry points round robin), fast and default mode; every reported location = runtime.Caller on the same line')
    finally:
        shutil.rmtree(tmp, ignore_errors=True)


def run_many_sites(run):
    cases = ['1 3', '0 2']
    tmp = common.scratch_dir('c11s')
    try:
        common.write_lines(tmp + '/c', cases)
        rc, out = common.run_impl('c11s', tmp + '/c', tmp + '/i', timeout=1800)
        io = common.read_lines(tmp + '/i')
        run.obligations += 1
        if rc != 0 or len(io) != len(cases):
            run.add_violation('harness-error', 'c11s rc=%s %s' % (rc, out[-1500:]), [out[-2000:]], no_input=True)
            return
        bad = [(c, o) for c, o in zip(cases, io) if len(o.split()) < 2 or o.split()[1] != '0']
        for c, o in bad[:2]:
            run.add_violation('oracle:c11/many-sites', 'with many distinct call sites the reported location is not the calling statement: ' + o[:300], ['family c11s', 'case ' + c, 'impl ' + o[:1000]])
        if not bad:
            run.discharged += 1
        n = sum(int(o.split()[0]) for o in io if o.split()[0].isdigit())
        run.stream('c11/many-sites', n, n, True, '1525 distinct call sites (generated source, five entry-point shapes; 25 of them far down their file through //line directives: lines at and beyond 2^16, 2^17, 2^24 and at 10^9, file names other than the compiled one), each logging once per pass for 2-3 passes, fast and default mode')
    finally:
        shutil.rmtree(tmp, ignore_errors=True)


def check(run):
    run_matrix(run, 'c11/matrix')
    run_concurrent(run)
    run_many_sites(run)
    if run.tier == 'thorough':
        # the same matrix with inlining disabled
        binp = common.BUILD + '/implrun-noinline'
        rc, out, _ = common.sh([common.GO, 'build', '-tags', 'verif', '-gcflags=all=-l', '-o', binp, '.'], cwd=common.VERIF + '/harness', env=common.go_env(), timeout=900)
        if rc == 0:
            run_matrix(run, 'c11/matrix-noinline', binp)
        else:
            run.add_violation('harness-error', 'noinline build failed: ' + out[-500:], [out[-1500:]], no_input=True)
    run.exhaustive = True
    return 'see streams'


def replay(run, path):
    run_matrix(run, 'c11/replay')
    for v in run.violations:
        print(v['detail'])
    if run.violations:
        print('VIOLATION property=C11 replay=' + path)
    return 1 if run.violations else 0
