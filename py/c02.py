"""C02 - each tag is served by the most specific configured logger, else root."""
import common
from common import hx


def universe(rng, n=70):
    segs = ['a', 'b', 'ab', 'x1', 'svc', 'order', 'paid', '9', 'req', 'in']
    tags = set()
    while len(tags) < n:
        k = rng.randint(1, 4)
        t = ('_' if rng.random() < 0.5 else '') + '_'.join(rng.choice(segs[:6] if rng.random() < 0.7 else segs) for _ in range(k))
        if 3 <= len(t) <= 36:
            tags.add(t)
    # close under prefixes for a part of the universe so that literal-vs-wildcard conflicts are frequent
    for t in list(tags)[:25]:
        parts = t.lstrip('_').split('_')
        lead = '_' if t.startswith('_') else ''
        for k in range(1, len(parts)):
            p = lead + '_'.join(parts[:k])
            if len(p) >= 3:
                tags.add(p)
    return sorted(tags)


def gen_cases(rng, tags, n):
    cases = []
    for _ in range(n):
        nl = rng.randint(0, 4)
        names = ['l%d' % i for i in range(nl)]
        if rng.random() < 0.5:
            names.append('root')
        specs = []
        used = []
        for nm in names:
            items = []
            for _ in range(rng.randint(0 if rng.random() < 0.08 else 1, 4)):
                t = rng.choice(tags)
                k = rng.random()
                if k < 0.35:
                    items.append(t)                                   # literal
                elif k < 0.8:
                    parts = t.lstrip('_').split('_')
                    lead = '_' if t.startswith('_') else ''
                    j = rng.randint(1, len(parts))
                    items.append(lead + '_'.join(parts[:j]) + '_*')    # wildcard at some depth (maybe useless)
                elif k < 0.85 and used:
                    items.append(rng.choice(used))                    # duplicate across loggers -> conflict
                elif k < 0.9:
                    items.append(rng.choice(['*', 'a*', '_a_*x', 'a_**', '_*', 'a_b*', '']))  # malformed / odd wildcards
                else:
                    items.append(items[-1] if items else t)            # duplicate within one logger
            used += items
            sep = rng.choice([',', ', ', ' , ', ',,'])
            s = sep.join(items)
            if rng.random() < 0.1:
                s = ' ' + s + ' '
            if nm == 'root':
                s = s if rng.random() < 0.12 else ''
            # the kind of logger behind the name: Logger / AsyncLogger with a recording appender, the File, RollingFile and Console logger plugins
            kind = rng.choice('LLLAFRC') if 'C' not in [x[-1] for x in specs] else rng.choice('LLLAFR')
            specs.append('%s:%s:%s' % (hx(nm), hx(s), kind))
        rng.shuffle(specs)
        cases.append('c ' + ' '.join(specs))
    return cases


def check(run):
    rng = run.rng
    quick = run.tier == 'quick'
    total = 0
    for u in range(2 if quick else 12):
        tags = universe(rng)
        cases = ['u ' + ' '.join(hx(t) for t in tags)] + common.corpus('C02') + gen_cases(rng, tags, 220 if quick else 900)

        def nontrivial(c, obs):
            return obs not in ('err', 'u') and len(set(obs.split())) >= 2
        res = common.simple_family_check(run, 'c02', 'c02/universe%d' % u, cases, nontrivial,
            'universe of ~80 registered tags (1-4 segments, with/without leading underscore, prefix-closed part); up to 4 loggers + optional root, each a Logger / AsyncLogger on a recording appender or a File / RollingFile / Console logger plugin, with '
            'literal / wildcard (all depths, useless, malformed) / duplicated tag lists in shuffled key order; observable = Refresh error, else for EVERY '
            'registered tag the logger whose appender (or own file / JSON console line) received an Info logged through it; non-trivial = at least two different serving loggers')
        if res:
            mo, io = res
            errs = sum(1 for o in io if o == 'err')
            run.coverage.setdefault('distribution', {})['universe%d' % u] = {'tags': len(tags), 'cases': len(cases) - 1, 'refresh_errors': errs}
    return 'see streams'


def replay(run, path):
    return common.simple_replay('C02', 'c02', path)
