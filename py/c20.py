"""C20 - synchronous file logging is write-through: returned calls survive a crash."""
import shutil
import common


def check(run):
    rng = run.rng
    quick = run.tier == 'quick'
    cases = common.corpus('C20')
    for _ in range(48 if quick else 1500):
        kind = rng.choice(['file', 'rolling', 'rolling', 'console'])
        dur = rng.choice([300, 600]) if kind != 'rolling' else rng.choice([1300, 2400, 3300])
        cases.append('%s %d %d %s %d %d' % (kind, rng.randint(0, 1), rng.choice([1, 2, 4]), rng.choice(['kill', 'exit']),
                                            rng.choice([1, 2, 5, 50, 500, 3000, 20000, rng.randint(1, 30000)]), dur))
    # crash points after one or more rotation boundaries have been crossed by several goroutines
    for lay in (0, 1):
        for g in (2, 4):
            cases.append('rolling %d %d exit 1000000000 %d' % (lay, g, rng.choice([2300, 3300])))
            cases.append('rolling %d %d kill %d 3300' % (lay, g, rng.choice([30000, 60000, 90000])))
    # rotations start the retention scan: time zones on both sides of UTC and small / large retention settings
    for tz in ('America/Los_Angeles', 'Pacific/Pago_Pago', 'Asia/Tokyo', 'Pacific/Kiritimati', 'UTC'):
        for age in ((1, 720) if quick else (1, 2, 12, 24, 720)):
            cases.append('rolling %d %d kill %d %d %s %d' % (rng.randint(0, 1), rng.choice([1, 2]), rng.choice([20000, 40000]), rng.choice([2300, 3300]), tz, age))
    # the layout declared on the logger (the logger formats, references filter the bytes by level); the RollingFile logger plugin
    for kind in ('file-ll', 'rollinglogger', 'filelogger', 'consolelogger'):
        for lay in (0, 1):
            cases.append('%s %d %d %s %d %d' % (kind, lay, rng.choice([1, 2, 4]), rng.choice(['kill', 'exit']), rng.choice([5, 200, 3000]), 1300 if kind == 'rollinglogger' else 600))
    # two loggers (one per tag) whose appenders share ONE target file: every descriptor appends
    for kind in ('file2', 'rolling2', 'filelogger2'):
        for lay in (0, 1):
            cases.append('%s %d %d %s %d %d' % (kind, lay, rng.choice([1, 2, 4]), rng.choice(['kill', 'exit']), rng.choice([2, 40, 3000]), 1300 if kind == 'rolling2' else 600))
    # the process's SECOND configuration (Refresh, a few lines, Destroy, Refresh again) on a target given by a relative path
    for kind in ('file-re', 'filelogger-re', 'rolling-re', 'rollinglogger-re', 'file2-re'):
        for lay in (0, 1):
            cases.append('%s %d %d %s %d %d' % (kind, lay, rng.choice([1, 4]), rng.choice(['kill', 'exit']), rng.choice([4, 25, 2000]), 1300 if 'rolling' in kind else 600))
    # the console is a pipe nobody reads for 1.5 s: what a goroutine has been told is written must be in the pipe, not in another goroutine's hands
    for lay in (0, 1):
        for g in (2, 4):
            cases.append('console-stall %d %d %s 1500 600' % (lay, g, rng.choice(['kill', 'exit'])))
    # long lines whose formatting buffer lands on / around the pooled-buffer capacity, several goroutines, slow-ish targets
    for kind in ('console', 'file', 'rolling'):
        for cap, pad in (('8KB', 5000), ('8KB', 8000), ('4KB', 3000), ('10KB', 9800)):
            cases.append('%s %d %d kill %d %d - - %d %s' % (kind, rng.randint(0, 1), rng.choice([2, 4]), rng.choice([300, 1500]), 1300 if kind == 'rolling' else 600, pad, cap))
    tmp = common.scratch_dir('c20')
    try:
        common.write_lines(tmp + '/c', cases)
        rc, li = common.run_impl('c20', tmp + '/c', tmp + '/i', timeout=1800)
        io = common.read_lines(tmp + '/i')
        run.obligations += 1
        if rc != 0 or len(io) != len(cases):
            run.add_violation('harness-error', 'c20 rc=%s lines=%d/%d %s' % (rc, len(io), len(cases), li[-1000:]), [li[-2000:]], no_input=True)
            return 'harness error'
        bad = [(c, o) for c, o in zip(cases, io) if not o.startswith('acked=') or o.split('missing=')[1].strip() != '']
        for c, o in bad[:3]:
            run.add_violation('oracle:c20', 'acknowledged log calls whose complete line is not in the target after the process died: ' + o[:300], ['family c20', 'case ' + c, 'impl ' + o])
        if not bad:
            run.discharged += 1
        nontriv = sum(1 for o in io if o.startswith('acked=') and int(o.split()[0][6:]) > 0)
        acks = sum(int(o.split()[0][6:]) for o in io if o.startswith('acked='))
        run.stream('c20/crash-points', len(cases), nontriv, False, 'child process logging through a synchronous logger on a file / rolling-file (1 s rotation, crossing boundaries) / console appender, with the layout on the appender or on the logger (plus a lower-bounded reference), or through the RollingFile logger plugin (level, separate), or through two loggers whose appenders share one target file, or as the second configuration of the process on a relative path, or on a console that is a stalled pipe, either layout, 1-4 goroutines, process time zones from UTC-11 to UTC+14 with retention 1-720 h, lines of 3-10 KB around the pooled-buffer capacity (self-validating payloads), '
                   'acknowledging every returned call on a pipe; SIGKILL after k acknowledgements or os.Exit right after call k; oracle: every acknowledged id is a complete line in the target '
                   '(%d acknowledged calls in total); non-trivial = at least one call acknowledged before the crash' % acks)
        run.coverage['samples'] += [{'stream': 'c20', 'case': cases[0], 'observation': io[0][:200]}, {'stream': 'c20', 'case': cases[-1], 'observation': io[-1][:200]}]
    finally:
        shutil.rmtree(tmp, ignore_errors=True)
    return 'see streams'


def replay(run, path):
    cases = [l[5:] for l in common.read_lines(path) if l.startswith('case ')]
    tmp = common.scratch_dir('c20r')
    common.write_lines(tmp + '/c', cases)
    common.run_impl('c20', tmp + '/c', tmp + '/i')
    rc = 0
    for c, o in zip(cases, common.read_lines(tmp + '/i')):
        print(c, '->', o)
        if not o.startswith('acked=') or o.split('missing=')[1].strip() != '':
            rc = 1
    if rc:
        print('VIOLATION property=C20 replay=' + path)
    shutil.rmtree(tmp, ignore_errors=True)
    return rc
