"""C16 - logging never panics in any lifecycle state; Refresh/Destroy cycle is sane."""
import itertools
import common

ALPHABET = 'ABWELPMDgGwvrth'   # Refresh A / B / W (W: the tag's logger takes WARN and above only), Refresh invalid (early, late, last step, plugin start), Destroy, log via tag below WARN / at WARN and above, write via handles, register tag, obtain handle


def check(run):
    rng = run.rng
    quick = run.tier == 'quick'
    L = 4 if quick else 5
    cases = common.corpus('C16')
    for n in range(1, L + 1):
        for t in itertools.product(ALPHABET, repeat=n):
            cases.append(''.join(t))
    cases += ['LvLwLvLgLvLvLwLv', 'LvLvLvLvLvLvLvLvLvLv', 'ALvDLvBLvDLv', 'PADgPBDwPPAD', 'PDPADBD', 'MAgDMBwD', 'MMDA', 'WgGwDgGwWgD', 'WgDgAgDWGg', 'WPgGLgGDgG'] * 4
    for _ in range(300 if quick else 200000):
        cases.append(''.join(rng.choice(ALPHABET) for _ in range(rng.randint(6, 20))))

    def nontrivial(c, obs):
        return ('A' in c or 'B' in c or 'W' in c) and ('g' in c or 'G' in c or 'w' in c or 'r' in c)
    res = common.simple_family_check(run, 'c16', 'c16/sequences', cases, nontrivial,
        'ALL operation sequences up to length %d over {Refresh(valid sync A), Refresh(valid async B), Refresh(valid W: the logger of the tag restricted to WARN and above), Refresh(invalid early), Refresh(invalid late: unconfigured handle), Refresh(invalid at the last step: bad property value), Refresh(invalid: the Start of a plugin fails), Destroy, log via tag at a level below WARN / at WARN and above (the entry points in turn), write via handle (two configured handles and the handle named root), '
        'register tag, obtain handle} plus random sequences of length 6-20; every call under recover and a 3 s watchdog; observable per operation: ok/err, where the event/bytes landed '
        '(sink of A, B or W, console, nowhere = dropped by the level range of W), registered/refused, panic, timeout; non-trivial = the sequence contains a valid Refresh and a log/write' % L,
        keep_empty=False, timeout=6000)
    if res:
        mo, io = res
        bad = [(c, o) for c, o, m in zip(cases, io, mo) if 'panic' in o or ('timeout' in o and 'abandoned' not in o) or o.count('nowhere') > m.count('nowhere')]
        run.obligations += 1
        if bad:
            for c, o in bad[:2]:
                run.add_violation('oracle:c16', 'a lifecycle operation panicked, blocked, or an event reached neither the configured sink nor the console: ' + o[:200], ['family c16', 'case ' + c, 'impl ' + o])
        else:
            run.discharged += 1
    run.exhaustive = True
    return 'see streams'


def replay(run, path):
    return common.simple_replay('C16', 'c16', path, keep_empty=False)
