"""C04 - async logger: delivered + discarded = submitted, nothing twice."""
import common, asyncgen


def concurrent_oracle(case, obs):
    """conclusion of c04_final / c04_block / c06_fifo_per_producer evaluated on a real concurrent run"""
    f = case.split()
    pol, np_, ni, raw_every, dis_every = f[1].split('+')[0], int(f[2]), int(f[3]), int(f[5]), int(f[6])
    parts = obs.split(' | ')
    if len(parts) != 3:
        return 'bad-observation'
    counter, delivered, ok = int(parts[0]), [d for d in parts[1].split(',') if d], parts[2]
    if ok != '1':
        return ok
    submitted = set()
    for p in range(np_):
        for n in range(ni):
            kind = 'e'
            if raw_every > 0 and n % raw_every == raw_every - 1:
                kind = 'w'
            if dis_every > 0 and n % dis_every == dis_every - 1:
                kind = 'd'
            if kind != 'd':
                submitted.add('%s%d.%d' % (kind, p, n))
    if len(set(delivered)) != len(delivered):
        return 'delivered-twice'
    if not set(delivered) <= submitted:
        return 'delivered-not-submitted(or disabled level delivered)'
    if len(delivered) + counter != len(submitted):
        return 'delivered(%d)+discarded(%d)!=submitted(%d)' % (len(delivered), counter, len(submitted))
    if pol == 'Block' and counter != 0:
        return 'block-policy-discarded'
    last = {}
    for d in delivered:
        if d[1:].count('.') != 1 or not d[1:].replace('.', '').isdigit():
            return 'an item was delivered with altered content: %r' % d
        p, n = d[1:].split('.')
        if int(n) <= last.get(p, -1):
            return 'per-producer-order-broken'
        last[p] = int(n)
    return 'ok'


def concurrent_cases(rng, n):
    cases = []
    for _ in range(n):
        cap = rng.choice([100, 100, 101, 128, 257, 1000, 10000])
        pol = rng.choice(asyncgen.POLICIES)
        np_ = rng.choice([1, 2, 3, 8, 32])
        ni = rng.choice([50, 200, 600]) if np_ <= 8 else rng.choice([30, 100])
        delay = rng.choice([0, 0, 20, 200])
        if pol == 'Block' and delay >= 200:
            ni = min(ni, 60)
        # '+L': the logger has its own layout and the reference a lower bound (the worker's other delivery path)
        cases.append('%d %s %d %d %d %d %d' % (cap, pol + rng.choice(['', '', '+L', '+U']), np_, ni, delay, rng.choice([0, 2, 5]), rng.choice([0, 3, 7])))
    return cases


def run_concurrent(run, name, n):
    import shutil
    tmp = common.scratch_dir('c04c')
    try:
        cases = concurrent_cases(run.rng, n)
        common.write_lines(tmp + '/c', cases)
        rc, li = common.run_impl('c04c', tmp + '/c', tmp + '/i', timeout=3000)
        io = common.read_lines(tmp + '/i')
        run.obligations += 1
        if rc != 0 or len(io) != len(cases):
            run.add_violation('harness-error', 'c04c rc=%s %s' % (rc, li[-1000:]), [li[-2000:]], no_input=True)
            return
        bad = [(c, o, concurrent_oracle(c, o)) for c, o in zip(cases, io)]
        bad = [b for b in bad if b[2] != 'ok']
        for c, o, v in bad[:3]:
            run.add_violation('oracle:' + name, 'concurrent run violates the conclusion of the theorems: ' + v, ['family c04c', 'case ' + c, 'impl ' + o[:3000], 'verdict ' + v])
        if not bad:
            run.discharged += 1
        nontriv = sum(1 for c, o in zip(cases, io) if int(o.split(' | ')[0]) > 0 or int(c.split()[2]) > 1)
        run.stream(name, len(cases), nontriv, False, 'real concurrent runs (1-32 producers, three policies, buffer 100-257, fast/slow appender, raw/event/disabled mixes); '
                   'oracle = conclusions of c04_final, c04_block, c06_fifo_per_producer; non-trivial = several producers or at least one discard')
        run.coverage['samples'].append({'stream': name, 'case': cases[0], 'observation': io[0][:200]})
    finally:
        shutil.rmtree(tmp, ignore_errors=True)


def refresh_verdict(c, o):
    f, p = c.split(), o.split(' ')
    ne, nr = int(f[3]), int(f[4])
    if len(p) != 4 or p[0] != '1':
        return 'no clean Destroy: ' + o[:100], 0
    ids = [x for x in p[1].split(',') if x]
    want = [str(i) for i in range(ne + nr)]
    sep = 'sep' in f[0]
    if f[2] == 'Block':
        exp = sorted(want + ([str(i) for i in range(ne, ne + nr)] if sep else []), key=int)
        if sorted(ids, key=int) != exp:
            return 'Block policy: %d of %d submitted items delivered' % (len(set(ids)), len(want)), 0
        return 'ok', 0
    cnt = {}
    for x in ids:
        cnt[x] = cnt.get(x, 0) + 1
    if any(x not in want for x in ids) or any(n > (2 if sep and int(x) >= ne else 1) for x, n in cnt.items()):
        return 'an item delivered twice or never submitted', 0
    return 'ok', 1 if len(set(ids)) < len(want) else 0


def refresh_built(run, name):
    """async loggers as a configuration builds them (AsyncLogger plugin, RollingFile logger with async=true), every policy spelled out,
    the smallest buffer, a burst that overflows it: Block delivers everything in order, the discarding policies a duplicate-free part of it"""
    import shutil
    rng = run.rng
    cases = []
    for kind in ('asyncfile', 'rollingasync', 'rollingsepasync'):
        for pol in asyncgen.POLICIES:
            cases.append('%s %d %s %d %d 0 0 100' % (kind, rng.randint(0, 1), pol, rng.choice([3000, 6000]), rng.choice([0, 50])))
    tmp = common.scratch_dir('c04k')
    try:
        common.write_lines(tmp + '/c', cases)
        rc, li = common.run_impl('c05k', tmp + '/c', tmp + '/i', timeout=1800)
        io = common.read_lines(tmp + '/i')
        run.obligations += 1
        if rc != 0 or len(io) != len(cases):
            run.add_violation('harness-error', 'c05k (from C04) rc=%s lines=%d/%d %s' % (rc, len(io), len(cases), li[-1500:]), [li[-2000:]], no_input=True)
            return
        bad, overflowed = [], 0
        for c, o in zip(cases, io):
            v, ov = refresh_verdict(c, o)
            overflowed += ov
            if v != 'ok':
                bad.append((c, o, v))
        for c, o, v in bad[:3]:
            run.add_violation('oracle:' + name, v, ['family c05k', 'case ' + c, 'impl ' + o[:1500], 'verdict ' + v])
        if not bad:
            run.discharged += 1
        run.stream(name, len(cases), overflowed + 3, False, 'Refresh-built async loggers (AsyncLogger plugin with a file appender, RollingFile logger async with/without .wf), bufferSize=100, each policy configured explicitly, '
                   'one producer bursting 3000-6000 events + raw writes; oracle: Block delivers every item (in the files after Destroy), the discarding policies deliver a duplicate-free subset')
    finally:
        shutil.rmtree(tmp, ignore_errors=True)


def check(run):
    rng = run.rng
    quick = run.tier == 'quick'
    cases = common.corpus('C04')
    for _ in range(150 if quick else 3000):
        cap = rng.choice([100, 100, 101, 113, 130])
        pol = rng.choice(asyncgen.POLICIES)
        occ = rng.choice([0, 1, cap - 1, cap, cap + 1, rng.randint(0, cap + 1)])
        ops = asyncgen.fill_prefix(cap, occ) + asyncgen.random_sequence(rng, cap, pol, rng.randint(1, 160 if quick else 260), occ=occ)
        sfx = asyncgen.variant(rng)
        cases.append('%d %s %s' % (cap, pol + sfx, ' '.join(asyncgen.adapt(ops, sfx))))

    def nontrivial(c, obs):
        last = obs.split(';')[-1].split('|')
        return len(last) >= 2 and last[1] not in ('0', '') or '|b' in obs
    common.simple_family_check(run, 'c04', 'c04/gated-sequences', cases, nontrivial,
        'deterministic operation sequences (submit event/raw/disabled, let the worker hand over one item, Stop) against the real AsyncLogger (without a layout, and with its own layout plus a lower-bounded reference) with the worker parked '
        'inside a gated appender; start occupancies 0,1,cap-1,cap,cap+1,random; after EVERY operation: delivered ids in order, discard counter, buffer length, '
        'whether the call returned; non-trivial = at least one discard or a blocked call', keep_empty=False, timeout=3000)
    run_concurrent(run, 'c04/concurrent', 40 if quick else 1200)
    refresh_built(run, 'c04/refresh-built')
    import c06
    c06.stalled(run, 12 if quick else 300, name='c04/stalled-conservation')
    return 'see streams'


def replay(run, path):
    lines = common.read_lines(path)
    if any(l.startswith('family c05k') for l in lines):
        import shutil
        cases = [l[5:] for l in lines if l.startswith('case ')]
        tmp = common.scratch_dir('c04r')
        common.write_lines(tmp + '/c', cases)
        common.run_impl('c05k', tmp + '/c', tmp + '/i')
        rc = 0
        for c, o in zip(cases, common.read_lines(tmp + '/i')):
            v, _ = refresh_verdict(c, o)
            print(c, '\n impl:', o[:300], '\n verdict:', v)
            if v != 'ok':
                rc = 1
                print('VIOLATION property=C04 replay=' + path)
        shutil.rmtree(tmp, ignore_errors=True)
        return rc
    return common.simple_replay('C04', 'c04', path, keep_empty=False)
