"""C04 - async logger: delivered + discarded = submitted, nothing twice."""
import common, asyncgen


def concurrent_oracle(case, obs):
    """conclusion of c04_final / c04_block / c06_fifo_per_producer evaluated on a real concurrent run"""
    f = case.split()
    pol, np_, ni, raw_every, dis_every = f[1].split('+')[0], int(f[2]), int(f[3]), int(f[5]), int(f[6])
    parts = obs.split(' | ')
    if len(parts) != 3:
        return 'bad-observation'
    counter, delivered, ok = int(parts[0]), [d for d in parts[1].split(',') if d], parts[2]
    if ok != '1':
        return ok
    submitted = set()
    for p in range(np_):
        for n in range(ni):
            kind = 'e'
            if raw_every > 0 and n % raw_every == raw_every - 1:
                kind = 'w'
            if dis_every > 0 and n % dis_every == dis_every - 1:
                kind = 'd'
            if kind != 'd':
                submitted.add('%s%d.%d' % (kind, p, n))
    if len(set(delivered)) != len(delivered):
        return 'delivered-twice'
    if not set(delivered) <= submitted:
        return 'delivered-not-submitted(or disabled level delivered)'
    if len(delivered) + counter != len(submitted):
        return 'delivered(%d)+discarded(%d)!=submitted(%d)' % (len(delivered), counter, len(submitted))
    if pol == 'Block' and counter != 0:
        return 'block-policy-discarded'
    last = {}
    for d in delivered:
        if d[1:].count('.') != 1 or not d[1:].replace('.', '').isdigit():
            return 'an item was delivered with altered content: %r' % d
        p, n = d[1:].split('.')
        if int(n) <= last.get(p, -1):
            return 'per-producer-order-broken'
        last[p] = int(n)
    return 'ok'


def concurrent_cases(rng, n):
    cases = []
    for _ in range(n):
        cap = rng.choice([100, 100, 101, 128, 257, 1000, 10000])
        pol = rng.choice(asyncgen.POLICIES)
        np_ = rng.choice([1, 2, 3, 8, 32])
        ni = rng.choice([50, 200, 600]) if np_ <= 8 else rng.choice([30, 100])
        delay = rng.choice([0, 0, 20, 200])
        if pol == 'Block' and delay >= 200:
            ni = min(ni, 60)
        # '+L': the logger has its own layout and the reference a lower bound (the worker's other delivery path)
        cases.append('%d %s %d %d %d %d %d' % (cap, pol + rng.choice(['', '', '+L', '+U']), np_, ni, delay, rng.choice([0, 2, 5]), rng.choice([0, 3, 7])))
    return cases


def run_concurrent(run, name, n):
    import shutil
    tmp = common.scratch_dir('c04c')
    try:
        cases = concurrent_cases(run.rng, n)
        common.write_lines(tmp + '/c', cases)
        rc, li = common.run_impl('c04c', tmp + '/c', tmp + '/i', timeout=3000)
        io = common.read_lines(tmp + '/i')
        run.obligations += 1
        if rc != 0 or len(io) != len(cases):
            run.add_violation('harness-error', 'c04c rc=%s %s' % (rc, li[-1000:]), [li[-2000:]], no_input=True)
            return
        bad = [(c, o, concurrent_oracle(c, o)) for c, o in zip(cases, io)]
        bad = [b for b in bad if b[2] != 'ok']
        for c, o, v in bad[:3]:
            run.add_violation('oracle:' + name, 'concurrent run violates the conclusion of the theorems: ' + v, ['family c04c', 'case ' + c, 'impl ' + o[:3000], 'verdict ' + v])
        if not bad:
            run.discharged += 1
        nontriv = sum(1 for c, o in zip(cases, io) if int(o.split(' | ')[0]) > 0 or int(c.split()[2]) > 1)
        run.stream(name, len(cases), nontriv, False, 'real concurrent runs (1-32 producers, three policies, buffer 100-257, fast/slow appender, raw/event/disabled mixes); '
                   'oracle = conclusions of c04_final, c04_block, c06_fifo_per_producer; non-trivial = several producers or at least one discard')
        run.coverage['samples'].append({'stream': name, 'case': cases[0], 'observation': io[0][:200]})
    finally:
        shutil.rmtree(tmp, ignore_errors=True)


def check(run):
    rng = run.rng
    quick = run.tier == 'quick'
    cases = common.corpus('C04')
    for _ in range(150 if quick else 3000):
        cap = rng.choice([100, 100, 101, 113, 130])
        pol = rng.choice(asyncgen.POLICIES)
        occ = rng.choice([0, 1, cap - 1, cap, cap + 1, rng.randint(0, cap + 1)])
        ops = asyncgen.fill_prefix(cap, occ) + asyncgen.random_sequence(rng, cap, pol, rng.randint(1, 160 if quick else 260), occ=occ)
        sfx = asyncgen.variant(rng)
        cases.append('%d %s %s' % (cap, pol + sfx, ' '.join(asyncgen.adapt(ops, sfx))))

    def nontrivial(c, obs):
        last = obs.split(';')[-1].split('|')
        return len(last) >= 2 and last[1] not in ('0', '') or '|b' in obs
    common.simple_family_check(run, 'c04', 'c04/gated-sequences', cases, nontrivial,
        'deterministic operation sequences (submit event/raw/disabled, let the worker hand over one item, Stop) against the real AsyncLogger (without a layout, and with its own layout plus a lower-bounded reference) with the worker parked '
        'inside a gated appender; start occupancies 0,1,cap-1,cap,cap+1,random; after EVERY operation: delivered ids in order, discard counter, buffer length, '
        'whether the call returned; non-trivial = at least one discard or a blocked call', keep_empty=False, timeout=3000)
    run_concurrent(run, 'c04/concurrent', 40 if quick else 1200)
    import c06
    c06.stalled(run, 12 if quick else 300, name='c04/stalled-conservation')
    return 'see streams'


def replay(run, path):
    return common.simple_replay('C04', 'c04', path, keep_empty=False)
