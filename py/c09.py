"""C09 - string escaping is total, exact, and never leaks raw control bytes."""
import os, shutil
import common
from common import hx, unhx

ALPHA = [0x00, 0x01, 0x08, 0x09, 0x0a, 0x0d, 0x1f, 0x20, 0x22, 0x2f, 0x5c, 0x61, 0x7e, 0x7f,
         0x80, 0x8f, 0x90, 0x9f, 0xa0, 0xbf, 0xc0, 0xc1, 0xc2, 0xdf, 0xe0, 0xe1, 0xec, 0xed, 0xee, 0xef,
         0xf0, 0xf1, 0xf3, 0xf4, 0xf5, 0xff, 0xbd, 0xbe, 0x30, 0x39, 0x41, 0x66, 0x75, 0x6e, 0x5b, 0x5d, 0x1b, 0x7b]
TEXTS = [b'plain ascii text, nothing special here at all', 'héllo wörld € \U0001F600 �'.encode(), b'{"k":"v"}\\n',
         b'alice\x1fbob\x1fcarol\x1fdave', b'0123456789abcdef0123456789abcdef']


def gen_lines(run):
    rng = run.rng
    quick = run.tier == 'quick'
    out = []
    # every byte value inserted at every position of plain texts of length 0..24 (word-wise fast paths, tails)
    base = b'abcdefghijklmnopqrstuvwxyzABCDEFGH'
    for L in (0, 1, 7, 8, 9, 15, 16, 17, 24):
        for pos in range(L + 1):
            for b in range(256):
                out.append(base[:pos] + bytes([b]) + base[pos:L])
    # length <= 6 over a 10-symbol boundary alphabet (sampled in quick)
    a10 = [0x61, 0x22, 0x5c, 0x0a, 0x1f, 0x80, 0xbf, 0xc2, 0xe0, 0xf4]
    import itertools
    for n in range(0, 5 if quick else 7):
        for t in itertools.product(a10, repeat=n):
            out.append(bytes(t))
    # random long strings mixing valid text and garbage
    for _ in range(1500 if quick else 40000):
        parts = []
        for _ in range(rng.randint(1, 12)):
            k = rng.random()
            if k < 0.3:
                parts.append(rng.choice(TEXTS)[:rng.randint(0, 40)])
            elif k < 0.6:
                parts.append(bytes(rng.randrange(256) for _ in range(rng.randint(0, 12))))
            elif k < 0.8:
                parts.append(chr(rng.choice([0x7f, 0x80, 0x7ff, 0x800, 0xd7ff, 0xe000, 0xfffd, 0xffff, 0x10000, 0x10ffff, rng.randrange(0x80, 0xd800)])).encode())
            else:
                parts.append(bytes(rng.choice(ALPHA) for _ in range(rng.randint(1, 6))))
        out.append(b''.join(parts))
    if not quick:
        for n in (1000, 8192, 65536):
            out.append(bytes(rng.randrange(256) for _ in range(n)))
    return ['e ' + hx(s) for s in out]


def windows(run):
    quick = run.tier == 'quick'
    w = ['win 0 0 1']
    w += ['win 1 %d 1' % b for b in range(256)]
    w += ['win 2 %d 1' % b for b in range(256)]          # all 65 536 two-byte strings
    w += ['win 3 %d 0' % b for b in range(256)]          # 256 x 48 x 48
    w += ['win 4 %d 0' % b for b in (0xc2, 0xe0, 0xed, 0xef, 0xf0, 0xf4, 0xf5)]   # four-byte strings behind the boundary lead bytes (48^3 each)
    if not quick:
        w += ['win 3 %d 1' % b for b in range(256)]      # all 16.8 M three-byte strings
        w += ['win 4 %d 0' % b for b in range(128, 256)]  # 128 x 48^3 four-byte strings, non-ASCII lead
    return w


def win_size(l):
    _, n, first, full = l.split()
    n = int(n)
    return 1 if n == 0 else (256 if full == '1' else 48) ** (n - 1)


def classify(run, tmp, bad_cases, stream):
    """bad_cases: list of (input_bytes, impl_out_bytes). Uses the verified spec-side oracle to find a failing input."""
    cp = tmp + '/oracle.cases'
    common.write_lines(cp, ['o %s %s' % (hx(i), hx(o)) for i, o in bad_cases])
    common.run_model('c09', cp, tmp + '/oracle.out')
    verdicts = common.read_lines(tmp + '/oracle.out')
    failing = [(i, o, v) for (i, o), v in zip(bad_cases, verdicts) if v != 'ok']
    if failing:
        for i, o, v in failing[:3]:
            run.add_violation('oracle:' + stream, 'escaped output violates the property (%s)\n input : %s\n output: %s' % (v, hx(i), hx(o)),
                              ['family c09', 'case e ' + hx(i), 'impl ' + hx(o), 'verdict ' + v])
    else:
        i, o = bad_cases[0]
        run.add_violation('correspondence:' + stream,
                          'WriteLogString differs from the verified model `escape` (theorems c09_* no longer cover the code); the spec-side oracle accepts the %d differing outputs examined\n input : %s\n output: %s' % (len(bad_cases), hx(i), hx(o)),
                          ['broken: correspondence c09/escape (theorems c09_roundtrip, c09_no_raw_control, c09_output_is_utf8)', 'case e ' + hx(i), 'impl ' + hx(o)], no_input=True)


def check(run):
    tmp = common.scratch_dir('c09')
    try:
        # 1. line-by-line stream
        lines = gen_lines(run)
        cor = common.VERIF + '/corpus/C09/cases.txt'
        if os.path.exists(cor):
            lines = common.read_lines(cor) + lines
        cp = tmp + '/e.cases'
        common.write_lines(cp, lines)
        okm, lm = common.run_model('c09', cp, tmp + '/e.m')
        rc, li = common.run_impl('c09', cp, tmp + '/e.i')
        if not okm or rc != 0:
            run.add_violation('harness-error', 'c09 stream: model ok=%s impl rc=%s %s %s' % (okm, rc, lm[-300:], li[-1500:]), [li[-2000:]], no_input=True)
            return 'harness error'
        mo, io = common.read_lines(tmp + '/e.m'), common.read_lines(tmp + '/e.i')
        run.obligations += 1
        bad = [(unhx(c.split()[1]), unhx(i)) for c, m, i in zip(lines, mo, io) if m != i]
        if bad:
            classify(run, tmp, bad[:200], 'stream')
        else:
            run.discharged += 1
        nontriv = len({c for c, m in zip(lines, mo) if ('e ' + m) != c})   # distinct inputs that the escaper changes
        run.stream('c09/stream', len(lines), nontriv, False, 'byte sweeps at every position of plain texts, boundary-alphabet strings, random mixes; non-trivial = output differs from input')
        for idx in (5, len(lines) // 2, len(lines) - 1):
            run.coverage['samples'].append({'stream': 'c09/stream', 'case': lines[idx][:200], 'observation': io[idx][:300]})
        # 2. exhaustive windows compared block-wise by digest
        wl = windows(run)
        cp = tmp + '/w.cases'
        common.write_lines(cp, wl)
        okm, lm = common.run_model('c09', cp, tmp + '/w.m', timeout=3000)
        rc, li = common.run_impl('c09', cp, tmp + '/w.i', timeout=3000)
        mo, io = common.read_lines(tmp + '/w.m'), common.read_lines(tmp + '/w.i')
        run.obligations += 1
        if not okm or rc != 0 or len(mo) != len(wl) or len(io) != len(wl):
            run.add_violation('harness-error', 'c09 windows: model ok=%s impl rc=%s' % (okm, rc), [lm[-500:], li[-1500:]], no_input=True)
        else:
            badw = [w for w, m, i in zip(wl, mo, io) if m != i]
            if badw:
                # open the first differing blocks: enumerate their strings individually
                import itertools
                cases = []
                for w in badw[:4]:
                    _, n, first, full = w.split()
                    al = list(range(256)) if full == '1' else ALPHA
                    for t in itertools.islice(itertools.product(al, repeat=int(n) - 1), 70000):
                        cases.append(bytes([int(first)]) + bytes(t))
                cp2 = tmp + '/open.cases'
                common.write_lines(cp2, ['e ' + hx(s) for s in cases])
                common.run_model('c09', cp2, tmp + '/open.m'); common.run_impl('c09', cp2, tmp + '/open.i')
                bad = [(s, unhx(i)) for s, m, i in zip(cases, common.read_lines(tmp + '/open.m'), common.read_lines(tmp + '/open.i')) if m != i]
                classify(run, tmp, bad[:200] if bad else [(b'', b'')], 'window')
            else:
                run.discharged += 1
            total = sum(win_size(w) for w in wl)
            run.stream('c09/windows', total, total, True, 'exhaustive windows compared by MD5 per first-byte block: ' +
                       ('len<=2 over all bytes; len 3 over 256x48x48' if run.tier == 'quick' else 'len<=3 over all bytes (16.8M); len 4 with non-ASCII lead over 128x48^3'))
            run.coverage['samples'].append({'stream': 'c09/windows', 'case': wl[300], 'observation': io[300]})
        # 3. thorough: Go-side oracle over all 2^32 four-byte strings
        if run.tier == 'thorough':
            cp = tmp + '/s.cases'
            common.write_lines(cp, ['sweep4'])
            rc, li = common.run_impl('c09', cp, tmp + '/s.i', timeout=7200)
            res = common.read_lines(tmp + '/s.i')
            run.obligations += 1
            if rc == 0 and res and res[0].split()[1] == '0':
                run.discharged += 1
                run.stream('c09/sweep4-go-oracle', int(res[0].split()[0]), int(res[0].split()[0]), True, 'all 2^32 four-byte strings against the Go-side oracle (json.Unmarshal, utf8.Valid, no byte<0x20)')
            else:
                f = res[0].split() if res else ['0', '?', '?']
                run.add_violation('oracle:sweep4', 'Go-side oracle rejects %s of the 4-byte strings, first: %s' % (f[1], f[2] if len(f) > 2 else ''), ['family c09', 'case e ' + (f[2].split(':')[0] if len(f) > 2 else '')])
        # 4. in-Coq evaluation of a sample
        sample = lines[:60] + run.rng.sample(lines, 90)
        md = dict(zip(lines, common.read_lines(tmp + '/e.m')))
        sample = [c for c in sample if len(c) < 200]
        pairs = [('escape %s%%N' % common.coq_bytes(unhx(c.split()[1])), '%s%%N' % common.coq_bytes(unhx(md[c]))) for c in sample]
        ok, nbad, log = common.coq_sample_check('C09', 'From LogV Require Import Base.Bytes Model.Escape.', 'Definition sample_eqb := bytes_eqb.', pairs)
        run.obligations += 1
        if ok:
            run.discharged += 1
        else:
            run.add_violation('extraction-mismatch', 'vm_compute inside Coq disagrees with the extracted model on %d sample cases: %s' % (nbad, log), [log], no_input=True)
        run.exhaustive = True
    finally:
        shutil.rmtree(tmp, ignore_errors=True)
    return ('WriteLogString vs the verified model `escape`, byte for byte: exhaustive windows (see streams) + line stream; on any difference the verified '
            'spec-side oracle (unescape . out = sanitize in, no byte < 0x20, out is UTF-8) classifies it. distinct_nontrivial counts distinct inputs whose escaped form differs from the input, plus every window string.')


def replay(run, path):
    lines = [l[5:] for l in common.read_lines(path) if l.startswith('case ')]
    tmp = common.scratch_dir('c09r')
    common.write_lines(tmp + '/c', lines)
    common.run_model('c09', tmp + '/c', tmp + '/m'); common.run_impl('c09', tmp + '/c', tmp + '/i')
    rc = 0
    for c, m, i in zip(lines, common.read_lines(tmp + '/m'), common.read_lines(tmp + '/i')):
        print(c, '\n impl :', i, '\n model:', m)
        if m != i:
            rc = 1
            print('VIOLATION property=C09 replay=' + path)
    shutil.rmtree(tmp, ignore_errors=True)
    return rc
