"""Generator of log events (field lists from every public constructor) shared by C07 and C08."""
import struct
from decimal import Decimal
from common import hx

LEVELS = ['NONE', 'TRACE', 'DEBUG', 'INFO', 'WARN', 'ERROR', 'PANIC', 'FATAL', 'MAX', 'VERBOSE', 'NOTICE', 'ABOVE']
WIDTHS = [0, 8, 16, 32, 64]


def go_float_token(x: float):
    """strconv.FormatFloat(x, 'f', -1, 64) computed independently: shortest repr digits, positional notation."""
    if x != x:
        return 'x', 'NaN'
    if x in (float('inf'), float('-inf')):
        return 'x', '+Inf' if x > 0 else '-Inf'
    s = format(Decimal(repr(x)), 'f')
    if '.' in s:
        s = s.rstrip('0').rstrip('.')
    if s in ('', '-'):
        s += '0'
    return 'f', s


def ftok(x: float, w=64):
    if w == 32:   # Float[float32]: the value is widened to float64 before formatting
        try:
            x = struct.unpack('f', struct.pack('f', x))[0]
        except OverflowError:
            x = float('inf') if x > 0 else float('-inf')
    bits = struct.unpack('>Q', struct.pack('>d', x))[0]
    cls, tok = go_float_token(x)
    return '%016x:%s:%s' % (bits, cls, hx(tok.encode()))


def irange(w):
    b = {0: 64, 8: 8, 16: 16, 32: 32, 64: 64}[w]
    return -(1 << (b - 1)), (1 << (b - 1)) - 1


def urange(w):
    b = {0: 64, 8: 8, 16: 16, 32: 32, 64: 64}[w]
    return (1 << b) - 1


class Gen:
    def __init__(self, rng, text_safe_ctx=True):
        self.rng = rng

    def key(self):
        r = self.rng
        k = r.random()
        if k < 0.6:
            return r.choice([b'k', b'msg', b'key1', b'user_id', b'a.b', b'x-y', b'K'])
        if k < 0.75:
            return b''
        if k < 0.9:
            return ''.join(r.choice('abcé€😀 "\\\n\t=|{}[],:') for _ in range(r.randint(1, 6))).encode()
        return bytes(r.randrange(256) for _ in range(r.randint(1, 5)))

    def string(self):
        r = self.rng
        k = r.random()
        if k < 0.4:
            return r.choice([b'hello world', b'', b'value1', b'a=b||c', b'{"x":1}', b'line1\nline2', b'tab\there', b'quote"back\\slash',
                             b'a||', b'||', b'|', b'x|', b'||b', b'k=v', b'='])     # values that end in / consist of the pair separator and the key-value sign
        if k < 0.6:
            return ''.join(r.choice('abc xyz é ü € 😀 �   <>&') for _ in range(r.randint(0, 12))).encode()
        if k < 0.8:
            return bytes(r.randrange(256) for _ in range(r.randint(0, 10)))
        if k < 0.9:
            return bytes(r.choice([0, 1, 8, 9, 10, 13, 27, 31, 32, 34, 47, 92, 127, 128, 0xbf, 0xc2, 0xe0, 0xed, 0xf4, 0xff]) for _ in range(r.randint(1, 6)))
        # long values: a line beyond the formatting-buffer cap (10 KB) makes the layout drop its pooled buffer - what the NEXT events see matters
        return (b'x' * r.choice([50, 300, 2000, 50, 300, 2000, 10150, 12000]))

    def z(self, w):
        lo, hi = irange(w)
        r = self.rng
        return r.choice([0, 1, -1, lo, hi, lo + 1, hi - 1, r.randint(lo, hi), r.randint(-1000, 1000) if w != 8 else r.randint(-128, 127)])

    def n(self, w):
        hi = urange(w)
        r = self.rng
        return r.choice([0, 1, hi, hi - 1, hi // 2, hi // 2 + 1, r.randint(0, hi), min(hi, r.randint(0, 1000))])

    def fl(self, w=64):
        r = self.rng
        k = r.random()
        if k < 0.5:
            x = r.choice([0.0, -0.0, 1.0, -1.5, 0.1, 1e21, 1e-7, 123456789.125, 5e-324, 2.2250738585072014e-308, 1.7976931348623157e308,
                          9007199254740993.0, 9007199254740991.0, 0.30000000000000004, 1e100, -1e-100, 3.4028234663852886e38, 1.401298464324817e-45])
        elif k < 0.62:
            x = r.choice([float('nan'), float('inf'), float('-inf')])
        elif k < 0.8:
            x = struct.unpack('>d', struct.pack('>Q', r.getrandbits(64)))[0]
        else:
            x = r.uniform(-1e6, 1e6) * 10 ** r.randint(-20, 20)
        return ftok(x, w)

    def rval(self, depth=0):
        r = self.rng
        k = r.random()
        if depth > 2 or k < 0.5:
            c = r.random()
            if c < 0.15:
                return 'rn'
            if c < 0.3:
                return 'rb %d' % r.randint(0, 1)
            if c < 0.5:
                return 'ri %d' % r.choice([0, -1, 2 ** 53 + 1, -2 ** 63, 2 ** 63 - 1, r.randint(-10 ** 6, 10 ** 6)])
            if c < 0.75:
                return 'rs ' + hx(self.string())
            if c < 0.80:
                return 'rc'
            if c < 0.84:
                return 'rbm ' + hx(self.string())     # a value whose MarshalJSON fails with an arbitrary error text (control bytes, invalid UTF-8)
            if c < 0.87:
                return 'rf'
            if c < 0.90:
                return 'rst %d %s' % (r.randint(-5, 5), hx(self.string()))
            if c < 0.96:     # defined types over basic kinds, with / without MarshalText or MarshalJSON of their own; json.Number
                d = r.randrange(8)
                if d == 0:
                    return 'rdi %d' % r.choice([0, -3, 2 ** 62, r.randint(-999, 999)])
                if d == 1:
                    return 'rdu %d' % r.choice([0, 7, 2 ** 32 - 1])
                if d == 2:
                    return 'rds ' + hx(self.string())
                if d == 3:
                    return 'rdb %d' % r.randint(0, 1)
                if d == 4:
                    return 'rti %d' % r.randint(-50, 50)
                if d == 5:
                    return 'rts ' + hx(self.string())
                if d == 6:
                    return 'rjs ' + hx(self.string())
                return 'rjn ' + hx(r.choice(['0', '-7', '12.50', '1e3', '1E-2', '123456789012345678901234567890', 'abc', '']))
            if c < 0.985:    # pre-encoded JSON handed over as json.RawMessage: compact, pretty-printed (line breaks, blanks), malformed, empty
                return 'rrm ' + hx(r.choice(['{"a":1}', '{\n  "a": 1,\n  "b": [1, 2]\n}', '[1,\n2]', ' {"a" : "x y"} ', '{"a":', 'nope', '', '"s\\n"', '1e5', '{"a":1}\n']))
            return 're ' + hx(self.string())
        if k < 0.75:
            n = r.randint(0, 3)
            return 'rl %d %s' % (n, ' '.join(self.rval(depth + 1) for _ in range(n))) if n else 'rl 0'
        n = r.randint(0, 3)
        keys = list({self.key() for _ in range(n)})
        return ('rm %d %s' % (len(keys), ' '.join('%s %s' % (hx(k), self.rval(depth + 1)) for k in keys))).strip()

    def rval_other(self):
        """a dynamic value of a type Any does NOT dispatch (so it falls through to Reflect)"""
        while True:
            v = self.rval()
            if v.split()[0] not in ('rs', 'rb', 'ri'):
                return v

    def gval(self):
        r = self.rng
        k = r.randrange(19)
        w = r.choice(WIDTHS)
        fw = r.choice([32, 64])
        cnt = r.choice([0, 1, 2, 3, 5])
        if k == 0:
            return 'nil'
        if k == 1:
            return 'b %d' % r.randint(0, 1)
        if k == 2:
            return 'bp ' + r.choice(['n', '0', '1'])
        if k == 3:
            return ('bs %d ' % cnt + ' '.join(str(r.randint(0, 1)) for _ in range(cnt))).strip()
        if k == 4:
            return 'i %d %d' % (w, self.z(w))
        if k == 5:
            return 'ip %d %s' % (w, r.choice(['n', str(self.z(w))]))
        if k == 6:
            return ('is %d %d ' % (w, cnt) + ' '.join(str(self.z(w)) for _ in range(cnt))).strip()
        if k == 7:
            return 'u %d %d' % (w, self.n(w))
        if k == 8:
            return 'up %d %s' % (w, r.choice(['n', str(self.n(w))]))
        if k == 9:
            return ('us %d %d ' % (w, cnt) + ' '.join(str(self.n(w)) for _ in range(cnt))).strip()
        if k == 10:
            return 'f %d %s' % (fw, self.fl(fw))
        if k == 11:
            return 'fp %d %s' % (fw, r.choice(['n', self.fl(fw)]))
        if k == 12:
            return ('fs %d %d ' % (fw, cnt) + ' '.join(self.fl(fw) for _ in range(cnt))).strip()
        if k == 13:
            return 's ' + hx(self.string())
        if k == 14:
            return 'sp ' + r.choice(['n', hx(self.string())])
        if k == 15:
            return ('ss %d ' % cnt + ' '.join(hx(self.string()) for _ in range(cnt))).strip()
        return 'o ' + self.rval_other()

    def elem(self, depth=0):
        r = self.rng
        k = r.random()
        if depth > 2 or k < 0.6:
            c = r.randrange(5)
            if c == 0:
                return 'eb %d' % r.randint(0, 1)
            if c == 1:
                return 'ei %d' % self.z(64)
            if c == 2:
                return 'eu %d' % self.n(64)
            if c == 3:
                return 'ef ' + self.fl()
            return 'es ' + hx(self.string())
        n = r.randint(0, 3)
        if k < 0.8:
            return ('ea %d ' % n + ' '.join(self.elem(depth + 1) for _ in range(n))).strip()
        return ('eo %d ' % n + ' '.join('%s %s' % (hx(self.key()), self.elem(depth + 1)) for _ in range(n))).strip()

    def field(self, depth=0, maxdepth=4):
        r = self.rng
        k = r.randrange(26)
        key = hx(self.key())
        w = r.choice(WIDTHS)
        fw = r.choice([32, 64])
        cnt = r.choice([0, 1, 2, 3])
        if k == 0:
            return 'B %s %d' % (key, r.randint(0, 1))
        if k == 1:
            return 'BP %s %s' % (key, r.choice(['n', '0', '1']))
        if k == 2:
            return ('BS %s %d ' % (key, cnt) + ' '.join(str(r.randint(0, 1)) for _ in range(cnt))).strip()
        if k == 3:
            return 'I %d %s %d' % (w, key, self.z(w))
        if k == 4:
            return 'IP %d %s %s' % (w, key, r.choice(['n', str(self.z(w))]))
        if k == 5:
            return ('IS %d %s %d ' % (w, key, cnt) + ' '.join(str(self.z(w)) for _ in range(cnt))).strip()
        if k == 6:
            return 'U %d %s %d' % (w, key, self.n(w))
        if k == 7:
            return 'UP %d %s %s' % (w, key, r.choice(['n', str(self.n(w))]))
        if k == 8:
            return ('US %d %s %d ' % (w, key, cnt) + ' '.join(str(self.n(w)) for _ in range(cnt))).strip()
        if k == 9:
            return 'F %d %s %s' % (fw, key, self.fl(fw))
        if k == 10:
            return 'FP %d %s %s' % (fw, key, r.choice(['n', self.fl(fw)]))
        if k == 11:
            return ('FS %d %s %d ' % (fw, key, cnt) + ' '.join(self.fl(fw) for _ in range(cnt))).strip()
        if k == 12:
            return 'S %s %s' % (key, hx(self.string()))
        if k == 13:
            return 'SP %s %s' % (key, r.choice(['n', hx(self.string())]))
        if k == 14:
            return ('SS %s %d ' % (key, cnt) + ' '.join(hx(self.string()) for _ in range(cnt))).strip()
        if k == 15:
            return 'NIL ' + key
        if k == 16:
            return 'R %s %s' % (key, self.rval())
        if k in (17, 18):
            return 'ANY %s %s' % (key, self.gval())
        if k in (19, 20) and depth < maxdepth:
            n = r.choice([0, 1, 2, 3])
            return ('O %s %d ' % (key, n) + ' '.join(self.field(depth + 1, maxdepth) for _ in range(n))).strip()
        if k == 21:
            n = r.choice([0, 1, 2, 4])
            return ('ARR %s %d ' % (key, n) + ' '.join(self.elem() for _ in range(n))).strip()
        if k == 22:
            n = r.choice([0, 1, 2, 4])
            keys = list({self.key() for _ in range(n)})
            return ('MAP %d ' % len(keys) + ' '.join('%s %s' % (hx(kk), self.gval()) for kk in keys)).strip()
        if k == 23:
            return 'MSG ' + hx(self.string())
        if k == 24:
            return 'MSGF ' + hx(self.string())
        return 'S %s %s' % (key, hx(self.string()))

    def fields(self, n, maxdepth=4):
        return ('%d ' % n + ' '.join(self.field(0, maxdepth) for _ in range(n))).strip()

    def event(self, widths=None, at=None):
        r = self.rng
        lvl = r.choice(LEVELS)
        Y, M, D = r.choice([0, 1, 999, 1970, 2025, 9999, r.randint(0, 9999)]), r.randint(1, 12), r.randint(1, 28)
        h, m, s, ms = r.randint(0, 23), r.randint(0, 59), r.randint(0, 59), r.choice([0, 1, 9, 10, 99, 100, 999, r.randint(0, 999)])
        off = r.choice([0, 60, -480, 330, 765, -720])
        if at:
            Y, M, D, h, m, s, ms, off = at
        file = ''.join(r.choice('/abcdefghijklmnop_.-') for _ in range(r.choice([0, 1, 5, 20, 44, 45, 46, 47, 48, 60, 300])))
        if r.random() < 0.1:
            file = 'dir é/ファイル.go'
        line = r.choice([0, 1, 42, 999, 12345, 10 ** 7, r.randint(0, 10 ** 7)])
        W = r.choice(widths) if widths else r.choice([-5, -1, 0, 1, 2, 3, 4, 5, 10, 48, 47, 49, 200, r.randint(-5, 200)])
        tag = r.choice(['_app_def', '_biz_def', 'abc', '_com_request_in', 'a_b_c_d'])
        ctx = r.choice(['', '', 'trace-0a882193', 'k=v k2=v2', 'ü€', 'x' * 40])
        if r.random() < 0.15:   # what a context hook returns is whatever came in with the request: line breaks, quotes, separators, broken UTF-8
            ctx = r.choice(['a\nb', 'id=7\r\n[ERROR][2025-01-01T00:00:00.000][x.go:1] _app_def||msg=forged', 'tab\there', 'q"uo"te', 'back\\slash', 'nul\x00byte',
                            'a||b=c', 'esc\x1b[31m', '\udcff\udcfe', 'trace=\u00e9\udcc3', '\x7f', ' '])
        nctx = r.choice([0, 0, 1, 2])
        nf = r.choice([0, 1, 1, 2, 3, 5])
        return 'EV %s %d %d %d %d %d %d %d %d %s %d %d %s %s %s %s' % (
            lvl, Y, M, D, h, m, s, ms, off, hx(file.encode()), line, W, hx(tag.encode()), hx(ctx.encode("utf8", "surrogateescape")),
            self.fields(nctx, 2), self.fields(nf))

    def same_instant_elsewhere(self, ev):
        """the time tokens of an event that happens at the same instant (or within the same second / the next one) as `ev`, seen from another zone"""
        import datetime
        t = ev.split()
        Y, M, D, h, m, s, ms, off = [int(x) for x in t[2:10]]
        if not 2 <= Y <= 9998:
            return None
        r = self.rng
        off2 = r.choice([o for o in (0, 60, -480, 330, 765, -720, 345, -210) if o != off])
        d = datetime.datetime(Y, M, D, h, m, s) + datetime.timedelta(minutes=off2 - off, seconds=r.choice([0, 0, 0, 1, -1]))
        return (d.year, d.month, d.day, d.hour, d.minute, d.second, r.choice([ms, 0, 999, r.randint(0, 999)]), off2)

    def deep_event(self, depth):
        """nested objects/arrays to a given depth (boundary stream)"""
        inner = 'I 0 %s 1' % hx(b'leaf')
        for i in range(depth):
            inner = 'O %s 2 %s %s' % (hx(b'o%d' % i), 'S %s %s' % (hx(b's'), hx(b'v')), inner) if i % 2 == 0 else \
                    'O %s 1 %s' % (hx(b'o%d' % i), inner)
        return 'EV INFO 2025 6 1 0 0 0 0 0 %s 1 48 %s - 0 1 %s' % (hx(b'f.go'), hx(b'abc'), inner)
