"""C03 - concurrent logging yields whole, unmixed lines - one per event."""
import shutil
import common


def check(run):
    rng = run.rng
    quick = run.tier == 'quick'
    tmp = common.scratch_dir('c03')
    try:
        # (i) ownership probe: the bytes ToBytes returned must not change when another event is formatted
        probes = []
        for lay in ('text', 'json'):
            for cap in (1024, 4096, 10240):
                for s1 in (0, 10, 100, cap // 2 - 200, cap // 2 + 10, cap - 300, cap - 120, cap - 60, cap, cap + 100, 3 * cap):
                    if s1 < 0:
                        continue
                    for s2 in (5, max(0, s1 - 50), s1, s1 + 50):
                        probes.append('%s %d %d %d' % (lay, s1, s2, cap))
        common.write_lines(tmp + '/p', probes)
        rc, li = common.run_impl('c03p', tmp + '/p', tmp + '/pi')
        po = common.read_lines(tmp + '/pi')
        run.obligations += 1
        if rc != 0 or len(po) != len(probes):
            run.add_violation('harness-error', 'c03p rc=%s %s' % (rc, li[-1000:]), [li[-2000:]], no_input=True)
        else:
            bad = [(c, o) for c, o in zip(probes, po) if o != '1 0']
            for c, o in bad[:3]:
                run.add_violation('oracle:c03/ownership', 'the bytes returned by ToBytes changed (or are shared) when a second event was formatted: unchanged,overlap = ' + o,
                                  ['family c03p', 'case ' + c, 'impl ' + o])
            if not bad:
                run.discharged += 1
            run.stream('c03/ownership-probe', len(probes), len(probes), True, 'deterministic: b1 := ToBytes(e1); b2 := ToBytes(e2); b1 must be unchanged and must not share memory with b2; both layouts, '
                       'bufferCap 1K/4K/10K, line sizes from tens of bytes to 3x the cap incl. the capacity boundary of the pooled buffer')
        # (ii) real concurrent runs
        cases = common.corpus('C03')
        caps = [('1KB', 1024), ('4KB', 4096), ('10KB', 10240)]
        for _ in range(24 if quick else 600):
            capname, cap = rng.choice(caps)
            band = rng.choice(['small', 'upper-half', 'around-cap', 'beyond'])
            lo, hi = {'small': (0, 120), 'upper-half': (cap // 2 - 100, cap - 160), 'around-cap': (cap - 400, cap + 200), 'beyond': (cap + 100, 3 * cap)}[band]
            lo = max(lo, 0)
            ng = rng.choice([2, 4, 8, 16, 64])
            ne = max(4, (400 if quick else 1500) // ng)
            cases.append('%s %s %d %d %s %d %d %d %d' % (rng.choice(['console', 'console', 'file', 'rolling']), rng.choice(['text', 'json']), ng, ne, capname, lo, hi, rng.choice([7, 64, 1000]), rng.choice([0, 1])))
        # the console on a real pipe whose reader stalls (longer than any plausible write deadline) while the pipe is full: 16 goroutines, lines of 5-10 KB.
        # What goes wrong there depends on which goroutine gets the descriptor next, so the scenario runs in several processes side by side.
        pipe_cases = ['pipe %s 16 %d 10KB %d %d 100000 0' % (rng.choice(['text', 'json']), ne_, lo_, hi_)
                      for (ne_, lo_, hi_) in [(24, 9000, 11000), (40, 4500, 5500)] * (4 if quick else 12)]
        # two loggers whose File appenders write to one and the same file
        for lay_ in ('text', 'json'):
            cases.append('file2 %s %d %d 10KB 0 300 100000 0' % (lay_, rng.choice([4, 8]), 150))
        # one logger, two appenders with different layouts AND different file:line widths (caller location on; the call site's file:line is longer than the smaller width)
        for ng_ in ((4, 16) if quick else (1, 2, 4, 8, 16, 32)):
            cases.append('dual text %d %d 10KB 0 200 100000 0' % (ng_, 200 // ng_ + 5))
        # formatting contention: many goroutines, short lines, fast sinks - most of the time is spent formatting side by side
        for sink, lay, ng, ne in (('console', 'text', 16, 3000), ('console', 'json', 64, 800), ('console', 'text', 32, 1500), ('file', 'json', 32, 800)) if quick else \
                [(s_, l_, g_, 40000 // g_) for s_ in ('file', 'console') for l_ in ('text', 'json') for g_ in (8, 16, 32, 64)]:
            cases.append('%s %s %d %d 10KB 0 40 100000 0' % (sink, lay, ng, ne))
        common.write_lines(tmp + '/c', cases)
        import threading
        pres = [None] * len(pipe_cases)

        def run_pipe(k):
            common.write_lines(tmp + '/pc%d' % k, [pipe_cases[k]])
            r, l = common.run_impl('c03', tmp + '/pc%d' % k, tmp + '/pi%d' % k, timeout=600)
            o = common.read_lines(tmp + '/pi%d' % k)
            pres[k] = (r, l, o[0] if o else '')
        threads = [threading.Thread(target=run_pipe, args=(k,)) for k in range(len(pipe_cases))]
        for t in threads:
            t.start()
        rc, li = common.run_impl('c03', tmp + '/c', tmp + '/i', timeout=1800)
        io = common.read_lines(tmp + '/i')
        for t in threads:
            t.join()
        for k, (r, l, o) in enumerate(pres):
            cases.append(pipe_cases[k])
            io.append(o if r == 0 and o else 'harness-error rc=%s %s' % (r, l[-300:].replace('\n', ' ')))
        run.obligations += 1
        if rc != 0 or len(io) != len(cases):
            run.add_violation('harness-error', 'c03 rc=%s lines=%d/%d %s' % (rc, len(io), len(cases), li[-1000:]), [li[-2000:]], no_input=True)
        else:
            bad = [(c, o) for c, o in zip(cases, io) if len(o.split()) != 2 or o.split()[0] != o.split()[1]]
            for c, o in bad[:3]:
                run.add_violation('oracle:c03/concurrent', 'the sink does not hold exactly one whole line per event, byte-identical to the event formatted alone: ' + o[:300],
                                  ['family c03', 'case ' + c, 'impl ' + o[:1500]])
            if not bad:
                run.discharged += 1
            total = sum(int(o.split()[0]) for o in io if o.split()[0].isdigit())
            run.stream('c03/concurrent', len(cases), len(cases), False, '2-64 goroutines x both layouts x console (slow, chunk-copying, yielding writer; a real pipe whose reader stalls three times for 2.2 s with the pipe full) / file / rolling appenders / two File appenders of two loggers on one file / a console and a file appender with different layouts and file:line widths behind one logger x bufferCap 1K/4K/10K x line sizes below, every event stamped (TimeNow hook) with its own second, millisecond and zone, plus high-contention runs (16-64 goroutines, short lines, fast sinks), '
                       'in the upper half of, around and beyond the cap; with and without a context-fields hook that hands every call the same slice (spare capacity); oracle: multiset of whole lines in the sink = multiset of events formatted alone, one Write per event (%d events in total)' % total)
            run.coverage['samples'].append({'stream': 'c03/concurrent', 'case': cases[0], 'observation': io[0][:200]})
        # (iii) thorough: the same runs under the race detector (a data race on a pooled buffer is reported even when the bytes happen to agree)
        if not quick:
            ok, out = common.build_impl(race=True)
            run.obligations += 1
            if not ok:
                run.coverage.setdefault('notes', []).append('race build unavailable: ' + out[-300:])
                run.discharged += 1
            else:
                sub = cases[:120]
                common.write_lines(tmp + '/rc', sub)
                rc, li = common.run_impl('c03', tmp + '/rc', tmp + '/ri', timeout=3000, race=True, env={'GORACE': 'halt_on_error=0 exitcode=66'})
                if 'DATA RACE' in li or rc == 66:
                    run.add_violation('oracle:c03/race-detector', 'the race detector reports a data race while logging concurrently', ['family c03 (race build)', 'case ' + sub[0], li[-3000:]])
                elif rc != 0:
                    run.add_violation('harness-error', 'c03 race rc=%s %s' % (rc, li[-1000:]), [li[-2000:]], no_input=True)
                else:
                    run.discharged += 1
                run.stream('c03/concurrent-race', len(sub), len(sub), False, 'the first %d concurrent cases again under go build -race' % len(sub))
    finally:
        shutil.rmtree(tmp, ignore_errors=True)
    return 'see streams'


def replay(run, path):
    lines = common.read_lines(path)
    cases = [l[5:] for l in lines if l.startswith('case ')]
    fam = 'c03p' if any('family c03p' in l for l in lines) else 'c03'
    tmp = common.scratch_dir('c03r')
    common.write_lines(tmp + '/c', cases)
    common.run_impl(fam, tmp + '/c', tmp + '/i')
    rc = 0
    for c, o in zip(cases, common.read_lines(tmp + '/i')):
        print(c, '->', o)
        ok = (o == '1 0') if fam == 'c03p' else (len(o.split()) == 2 and o.split()[0] == o.split()[1])
        if not ok:
            rc = 1
    if rc:
        print('VIOLATION property=C03 replay=' + path)
    shutil.rmtree(tmp, ignore_errors=True)
    return rc
