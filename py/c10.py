"""C10 - context hooks and lazy generators run exactly once iff the event is emitted."""
import common, c01
from common import hx


def check(run):
    rng = run.rng
    n = 120 if run.tier == 'quick' else 4000
    cases = common.corpus('C10')
    for hooks in ('000', '100', '010', '001', '110', '101', '011', '111'):
        cases.append('none - - ' + hooks)
    for _ in range(n):
        kind = rng.choice(['sync', 'async', 'sync', 'async', 'syncr', 'asyncr', 'none'])   # none: no live configuration - after the Destroy of whatever the previous case configured
        lv = c01.level_str(rng, valid=rng.random() > 0.03)
        rl = c01.level_str(rng) if rng.random() < 0.5 else ''
        if kind == 'none':
            cases.append('none - - ' + rng.choice(['000', '100', '010', '001', '110', '101', '011', '111']))
            continue
        cases.append('%s %s %s %s' % (kind, hx(lv), hx(rl), rng.choice(['000', '100', '010', '001', '110', '101', '011', '111'])))

    def nontrivial(c, obs):
        toks = obs.split()
        return obs != 'err' and len({t.split(',')[5] for t in toks}) == 2   # some calls emitted, some not
    common.simple_family_check(run, 'c10', 'c10/hooks', cases, nontrivial,
        'per configuration (no live configuration - before the first Refresh and again after the Destroy of earlier, level-restricted ones - / sync / async logger, also with a second reference to a rolling-file appender, level ranges with and without upper bounds over built-in and custom levels, an appender reference with its own '
        'range, all 8 hook subsets): 14 fixed-level entry points + Record at every registered code and its neighbours, each call with its own context; observable per call: '
        'generator invocations, invocations of each hook and whether they got the caller\'s context, whether the event reached the sink, and whether it carries the hook time, '
        'the context string and the context fields (one of them, on every third call, under the key of one of the call\'s own fields) ahead of the call\'s fields; non-trivial = some calls emitted and some suppressed', keep_empty=False)
    # a second goroutine logs while another one is parked inside one of its hooks
    import shutil
    tmp = common.scratch_dir('c10c')
    try:
        cc = ['none', 'sync', 'async', 'sync', 'none']
        common.write_lines(tmp + '/c', cc)
        rc, li = common.run_impl('c10c', tmp + '/c', tmp + '/i', timeout=300)
        co = common.read_lines(tmp + '/i')
        run.obligations += 1
        if rc != 0 or len(co) != len(cc):
            run.add_violation('harness-error', 'c10c rc=%s %s' % (rc, li[-1000:]), [li[-2000:]], no_input=True)
        else:
            bad = [(c, o) for c, o in zip(cc, co) if o != '6 6 6 6 6 1']
            for c, o in bad[:3]:
                run.add_violation('oracle:c10/concurrent', 'while one goroutine is inside a hook, the calls of another one must still get each hook exactly once with their own context, and the results in their records: calls, time / string / fields hook calls, records with the hook results, the first goroutine\'s record = ' + o, ['family c10c', 'case ' + c, 'impl ' + o])
            if not bad:
                run.discharged += 1
            run.stream('c10/concurrent', len(cc), len(cc), False, 'goroutine A parked inside its context-string hook; goroutine B meanwhile logs through six entry points (built-in, sync, async logger): '
                       'every hook exactly once per call of B with B\'s context, the hook results in B\'s records; A\'s record complete after release')
    finally:
        shutil.rmtree(tmp, ignore_errors=True)
    run.coverage['calls_per_case'] = 50
    return 'see streams'


def replay(run, path):
    lines = common.read_lines(path)
    if any(l.startswith('family c10c') for l in lines):
        import shutil
        cases = [l[5:] for l in lines if l.startswith('case ')]
        tmp = common.scratch_dir('c10r')
        common.write_lines(tmp + '/c', cases)
        common.run_impl('c10c', tmp + '/c', tmp + '/i')
        rc = 0
        for c, o in zip(cases, common.read_lines(tmp + '/i')):
            print(c, '->', o)
            if o != '6 6 6 6 6 1':
                rc = 1
                print('VIOLATION property=C10 replay=' + path)
        shutil.rmtree(tmp, ignore_errors=True)
        return rc
    return common.simple_replay('C10', 'c10', path, keep_empty=False)
