"""C10 - context hooks and lazy generators run exactly once iff the event is emitted."""
import common, c01
from common import hx


def check(run):
    rng = run.rng
    n = 120 if run.tier == 'quick' else 4000
    cases = common.corpus('C10')
    for hooks in ('000', '100', '010', '001', '110', '101', '011', '111'):
        cases.append('none - - ' + hooks)
    for _ in range(n):
        kind = rng.choice(['sync', 'async', 'sync', 'async', 'syncr', 'asyncr', 'none'])   # none: no live configuration - after the Destroy of whatever the previous case configured
        lv = c01.level_str(rng, valid=rng.random() > 0.03)
        rl = c01.level_str(rng) if rng.random() < 0.5 else ''
        if kind == 'none':
            cases.append('none - - ' + rng.choice(['000', '100', '010', '001', '110', '101', '011', '111']))
            continue
        cases.append('%s %s %s %s' % (kind, hx(lv), hx(rl), rng.choice(['000', '100', '010', '001', '110', '101', '011', '111'])))

    def nontrivial(c, obs):
        toks = obs.split()
        return obs != 'err' and len({t.split(',')[5] for t in toks}) == 2   # some calls emitted, some not
    common.simple_family_check(run, 'c10', 'c10/hooks', cases, nontrivial,
        'per configuration (no live configuration - before the first Refresh and again after the Destroy of earlier, level-restricted ones - / sync / async logger, also with a second reference to a rolling-file appender, level ranges with and without upper bounds over built-in and custom levels, an appender reference with its own '
        'range, all 8 hook subsets): 14 fixed-level entry points + Record at every registered code and its neighbours, each call with its own context; observable per call: '
        'generator invocations, invocations of each hook and whether they got the caller\'s context, whether the event reached the sink, and whether it carries the hook time, '
        'the context string and the context fields (one of them, on every third call, under the key of one of the call\'s own fields) ahead of the call\'s fields; non-trivial = some calls emitted and some suppressed', keep_empty=False)
    run.coverage['calls_per_case'] = 50
    return 'see streams'


def replay(run, path):
    return common.simple_replay('C10', 'c10', path, keep_empty=False)
