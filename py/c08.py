"""C08 - text layout: one line, fixed header, key=value tokens identical to JSON tokens."""
import shutil
import common, c07


def check(run):
    tmp = common.scratch_dir('c08')
    try:
        cases = c07.gen_cases(run, 'text')
        rows = c07.run_events(run, cases, tmp)
        if rows is None:
            return 'harness error'
        run.obligations += 1
        panics = [r for r in rows if r[3].startswith('PANIC')]
        for r in panics[:3]:
            run.add_violation('panic', 'TextLayout.ToBytes panicked (a configured width must never make a log call fail): ' +
                              bytes.fromhex(r[3][6:]).decode('utf8', 'replace'), ['family c07', 'case ' + r[0]])
        mism = [r for r in rows if r[3] != r[5] and not r[3].startswith('PANIC')]
        # property-level oracle on the implementation's text: exactly one line (level name, file and tag of the generated events are control-free; the context string is arbitrary),
        # and the model (= the proved specification) byte for byte
        multi = []
        for r in rows:
            if r[3].startswith('PANIC'):
                continue
            b = bytes.fromhex(r[3]) if r[3] != '-' else b''
            if not b.endswith(b'\n') or any(x < 0x20 for x in b[:-1]):
                multi.append(r)
        for r in multi[:2]:
            run.add_violation('oracle:c08', 'the text line contains a control byte / is not exactly one line', ['family c07', 'case ' + r[0], 'impl ' + r[3]])
        for r in mism[:3]:
            if r in multi:
                continue
            run.add_violation('mismatch:c08/text_layout', 'TextLayout.ToBytes differs from the proved specification of the text line\n impl : %s\n model: %s' % (
                bytes.fromhex(r[3]).decode('utf8', 'replace')[:400], bytes.fromhex(r[5]).decode('utf8', 'replace')[:400]),
                ['family c07', 'case ' + r[1], 'impl ' + r[3], 'model ' + r[5]])
        if not panics and not mism and not multi:
            run.discharged += 1
        widths = {}
        for r in rows:
            w = int(r[0].split()[12])
            widths[w] = widths.get(w, 0) + 1
        nontriv = len({r[0] for r in rows if len(c07.kinds_of(r[0])) >= 2})
        run.stream('c08/text_layout', len(rows), nontriv, False, 'the C07 event stream rendered by TextLayout; widths W in [-5,200]; non-trivial = at least two constructor kinds')
        run.coverage['distribution'] = {'distinct_widths': len(widths), 'widths_below_3': sum(v for k, v in widths.items() if k < 3)}
        for idx in (1, len(rows) // 3, len(rows) - 2):
            r = rows[idx]
            run.coverage['samples'].append({'stream': 'c08', 'case': r[1][:300], 'text': bytes.fromhex(r[3]).decode('utf8', 'replace')[:300] if not r[3].startswith('PANIC') else r[3]})
    finally:
        shutil.rmtree(tmp, ignore_errors=True)
    return 'TextLayout.ToBytes vs the proved specification of the text line, byte for byte; no control byte before the final line feed; no panic for any width'


def replay(run, path):
    return c07.replay(run, path)
