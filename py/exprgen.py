"""Generator of config expressions for C17 (and C15 inline sub-trees)."""
from common import hx

WS = [' ', '\t', '\n', '\r', '  ', ' \n ']
IDENTS = ['a', 'Type', 'field_name', 'CONST', '_x', 'a1', 'File', 'Logger', 'e', 'x', 'E5', 'true']
ESCAPES = ['\\"', '\\\\', '\\/', '\\b', '\\f', '\\n', '\\r', '\\t']


class ExprGen:
    def __init__(self, rng):
        self.rng = rng

    def ws(self, p=0.5):
        r = self.rng
        return r.choice(WS) if r.random() < p else ''

    def ident(self):
        return self.rng.choice(IDENTS)

    def integer(self):
        r = self.rng
        k = r.random()
        if k < 0.6:
            return r.choice(['', '+', '-']) + str(r.choice([0, 1, 7, 42, 100, 9999999999999999999999]))
        if k < 0.8:
            return '0x' + ''.join(r.choice('0123456789abcdefABCDEF') for _ in range(r.randint(1, 6)))
        return r.choice(['007', '-0', '+00'])

    def flt(self):
        r = self.rng
        m = r.choice(['3.14', '0.5', '.25', '2', '10.01', '0.0'])
        e = r.choice(['', '', 'e10', 'E-2', 'e+5', 'E0'])
        s = r.choice(['', '+', '-']) + m + e
        if s.lstrip('+-').isdigit():
            s += 'e1'
        return s

    def string(self):
        r = self.rng
        parts = []
        for _ in range(r.randint(0, 6)):
            k = r.random()
            if k < 0.4:
                parts.append(r.choice(['hello', 'a b', '/var/log/app.log', '{x=1}', "it's", 'k=v,', 'C:']))
            elif k < 0.7:
                parts.append(r.choice(ESCAPES))
            elif k < 0.85:
                parts.append(r.choice(['é', '€', '😀', '\n', '\t', ' ']))
            else:
                parts.append(r.choice(['\\\\n', '\\\\t', '\\\\b', '\\\\\\"', '\\\\/']))
        return '"' + ''.join(parts) + '"'

    def path(self):
        r = self.rng
        s = self.ident()
        for _ in range(r.choice([0, 0, 1, 2, 3])):
            if r.random() < 0.6:
                s += self.ws(0.2) + '.' + self.ws(0.2) + self.ident()
            else:
                s += self.ws(0.2) + '[' + self.ws(0.2) + self.integer() + self.ws(0.2) + ']'
        return s

    def value(self, depth):
        r = self.rng
        k = r.random()
        if depth > 0 and k < 0.25:
            return self.expr(depth - 1)
        if k < 0.45:
            return self.ident()
        if k < 0.7:
            return self.string()
        if k < 0.85:
            return self.integer()
        return self.flt()

    def expr(self, depth):
        r = self.rng
        n = r.choice([0, 1, 1, 2, 3, 4])
        s = self.ident() + self.ws() + '{' + self.ws()
        items = []
        keys = []
        for _ in range(n):
            p = self.path() if not keys or r.random() > 0.2 else r.choice(keys)   # duplicate keys: later wins
            keys.append(p)
            items.append(p + self.ws() + '=' + self.ws() + self.value(depth))
        s += (self.ws() + ',' + self.ws()).join(items)
        if items and r.random() < 0.3:
            s += self.ws() + ','
        return s + self.ws() + '}'

    def valid(self, depth=None):
        d = self.rng.choice([0, 1, 2, 3, 6]) if depth is None else depth
        return (self.ws(0.3) + self.expr(d) + self.ws(0.3)).encode()

    def mutated(self):
        r = self.rng
        b = bytearray(self.valid())
        for _ in range(r.randint(1, 3)):
            k = r.random()
            if not b:
                break
            i = r.randrange(len(b))
            if k < 0.3:
                del b[i]
            elif k < 0.5:
                b[i:i] = r.choice([b'{', b'}', b',', b'=', b'.', b'[', b']', b'"', b'\\', b'+', b'.5', b'0x', b'e', b' '])
            elif k < 0.7:
                b[i] = r.randrange(256)
            elif k < 0.85 and len(b) > 2:
                j = r.randrange(len(b))
                b[i], b[j] = b[j], b[i]
            else:
                b[i:i] = b[i:i + r.randint(1, 5)]
        return bytes(b)

    def soup(self):
        r = self.rng
        toks = ['{', '}', ',', '=', '.', '[', ']', 'a', 'B', '"s"', '1', '1.5', '+', '-', '.5', '0x', '0x1', '1e', '1e5', ' ', '\n', '"', '\\', '\x0b', '\xa0', ' ', 'é']
        return ''.join(r.choice(toks) for _ in range(r.randint(0, 12))).encode()
