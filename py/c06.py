"""C06 - async logger keeps per-producer order and honours its overflow policy."""
import common, asyncgen, c04


def check(run):
    rng = run.rng
    quick = run.tier == 'quick'
    cap = 100
    cases = common.corpus('C06')
    L = 4 if quick else 7
    for pol in asyncgen.POLICIES:
        for occ in (0, cap - 1, cap, cap + 1):   # cap+1 = buffer full and the worker parked holding one item
            for t in asyncgen.exhaustive(L if pol != 'Block' else min(L, 4)):
                s = asyncgen.Seq()
                st = asyncgen.Occ(cap, pol, occ)
                ops = []
                okseq = True
                for k in t:
                    if k == 'T':
                        ops.append('T'); st.take()
                    else:
                        if st.would_block() and st.blocked >= 1:
                            okseq = False; break    # at most one parked producer at a time in the deterministic harness
                        ops.append(s.sub(k, 1)); st.submit()
                if okseq:
                    cases.append('%d %s %s' % (cap, pol, ' '.join(asyncgen.fill_prefix(cap, occ) + ops)))
    for _ in range(60 if quick else 1500):
        c = rng.choice([100, 101, 128])
        pol = rng.choice(asyncgen.POLICIES)
        occ = rng.choice([0, c - 2, c - 1, c, c + 1])
        sfx = asyncgen.variant(rng)
        cases.append('%d %s %s' % (c, pol + sfx, ' '.join(asyncgen.adapt(asyncgen.fill_prefix(c, occ) + asyncgen.random_sequence(rng, c, pol, rng.randint(5, 300), allow_stop=False, occ=occ), sfx))))

    def nontrivial(c, obs):
        return any(x.split('|')[1] not in ('0', '') for x in obs.split(';') if '|' in x) or '|b' in obs
    common.simple_family_check(run, 'c04', 'c06/exhaustive-sequences', cases, nontrivial,
        'ALL operation sequences over {append event, raw write, let the worker take one} up to length %d from start occupancies {0, cap-1, cap, cap+1 (worker parked)} '
        'for the three policies (Block limited to one parked producer), plus random sequences up to length 300; observables after every operation: delivered order, '
        'discard counter, buffer length, call returned vs parked; non-trivial = a discard or a parked call occurred' % L, keep_empty=False, timeout=6000)
    run.exhaustive = True
    c04.run_concurrent(run, 'c06/concurrent-fifo', 30 if quick else 800)
    stalled(run, 24 if quick else 400)
    rolling_policy(run)
    return 'see streams'


def rolling_policy(run):
    """the same overflow rules for the async logger built by the RollingFile logger plugin (async=true)"""
    import shutil
    tmp = common.scratch_dir('c06r')
    try:
        cases = ['%s %d %d' % (pol, extra, sep) for pol in ('Discard', 'DiscardOldest', 'Block') for extra in ((1, 7) if run.tier == 'quick' else (1, 2, 7, 50, 150)) for sep in (0, 1)]
        common.write_lines(tmp + '/c', cases)
        rc, li = common.run_impl('c06r', tmp + '/c', tmp + '/i', timeout=1800)
        io = common.read_lines(tmp + '/i')
        run.obligations += 1
        if rc != 0 or len(io) != len(cases):
            run.add_violation('harness-error', 'c06r rc=%s %s' % (rc, li[-1000:]), [li[-2000:]], no_input=True)
            return
        bad = []
        for c, o in zip(cases, io):
            pol, extra, _ = c.split()
            extra = int(extra)
            allids = ['b.%d' % i for i in range(1, 101)] + ['x.%d' % i for i in range(1, extra + 1)]
            want = {'Discard': '1 | ' + ','.join(['h.0'] + allids[:100]),
                    'DiscardOldest': '1 | ' + ','.join(['h.0'] + allids[-100:]),
                    'Block': '0 | ' + ','.join(['h.0'] + allids)}[pol]
            if o != want:
                bad.append((c, o, want))
        for c, o, w in bad[:3]:
            run.add_violation('oracle:c06/rolling-policy', 'the async logger of a RollingFile logger does not apply its configured overflow policy (or order): got %s want %s' % (o[:160], w[:160]),
                              ['family c06r', 'case ' + c, 'impl ' + o[:2000], 'want ' + w[:2000]])
        if not bad:
            run.discharged += 1
        run.stream('c06/rolling-policy', len(cases), len(cases), False, 'RollingFile logger with async=true (plain and separate), the worker parked inside the logger layout, buffer full, 1-150 further submissions: '
                   'Discard keeps the first 100, DiscardOldest the last 100, Block parks the caller; calls return at once under the two discard policies; file order = submission order')
    finally:
        shutil.rmtree(tmp, ignore_errors=True)


def stalled_oracle(case, obs):
    f = case.split()
    cap, pol, np_, ni = int(f[0]), f[1].split('+')[0], int(f[2]), int(f[3])
    head, deliv = obs.split(' | ')
    ret, counter = head.split()
    if ret != '1':
        return 'log-call-waits-for-the-appender' if ret == '0' else ret
    delivered = [d for d in deliv.split(',') if d]
    submitted = cap + 1 + np_ * ni
    if len(set(delivered)) != len(delivered):
        return 'delivered-twice'
    if len(delivered) + int(counter) != submitted:
        return 'delivered(%d)+discarded(%s)!=submitted(%d)' % (len(delivered), counter, submitted)
    if int(counter) != np_ * ni:
        return 'with a stalled worker and a full buffer every submission must cost exactly one discard (counter=%s, expected %d)' % (counter, np_ * ni)
    last = {}
    for d in delivered:
        if d[1:].count('.') != 1 or not d[1:].replace('.', '').isdigit():
            return 'an item was delivered with altered content: %r' % d
        p, n = d[1:].split('.')
        if int(n) <= last.get(p, -1):
            return 'per-producer-order-broken'
        last[p] = int(n)
    if pol == 'DiscardOldest':
        # the survivors are the most recent submissions: the parked item plus the last `cap` enqueued ones
        if delivered[0] != 'e99.0':
            return 'held-item-lost'
    return 'ok'


HEAVY = ['100 DiscardOldest 32 40', '100 DiscardOldest 64 200', '101 DiscardOldest 8 40', '100 DiscardOldest 16 3000', '100 DiscardOldest 4 5000', '100 Discard 64 100', '100 DiscardOldest+L 16 3000', '100 DiscardOldest 16 60000']


def stalled(run, n, name='c06/stalled-appender'):
    import shutil
    rng = run.rng
    tmp = common.scratch_dir('c06w')
    try:
        # heavy contention first: many producers racing for the slot an eviction has just freed. The last case is long on
        # purpose: for the first few hundred microseconds the producers barely overlap (the other Ps are still waking up)
        cases = list(HEAVY)
        for _ in range(n):
            cases.append('%d %s %d %d' % (rng.choice([100, 101, 128]), rng.choice(['Discard', 'DiscardOldest', 'DiscardOldest']) + rng.choice(['', '+L']), rng.choice([1, 2, 4, 8, 32]), rng.choice([1, 5, 40])))
        common.write_lines(tmp + '/c', cases)
        rc, li = common.run_impl('c06w', tmp + '/c', tmp + '/i', timeout=3000)
        io = common.read_lines(tmp + '/i')
        run.obligations += 1
        if rc != 0 or len(io) != len(cases):
            run.add_violation('harness-error', 'c06w rc=%s %s' % (rc, li[-1000:]), [li[-2000:]], no_input=True)
            return
        bad = [(c, o, stalled_oracle(c, o)) for c, o in zip(cases, io)]
        bad = [b for b in bad if b[2] != 'ok']
        for c, o, v in bad[:3]:
            run.add_violation('oracle:' + name, v, ['family c06w', 'case ' + c, 'impl ' + o[:2000], 'verdict ' + v])
        if not bad:
            run.discharged += 1
        run.stream(name, len(cases), len(cases), False, 'worker parked inside the appender, buffer full, 1-32 producers submitting concurrently under Discard/DiscardOldest: '
                   'every call must return (c06_no_wait_on_worker), exactly one discard per submission, per-producer order of the survivors')
        run.coverage['samples'].append({'stream': name, 'case': cases[0], 'observation': io[0][:200]})
    finally:
        shutil.rmtree(tmp, ignore_errors=True)


def replay(run, path):
    return common.simple_replay('C06', 'c04', path, keep_empty=False)
