"""C01 - an event reaches an appender iff its level is enabled on the whole path."""
import common
from common import hx

BUILTIN = ['NONE', 'TRACE', 'DEBUG', 'INFO', 'WARN', 'ERROR', 'PANIC', 'FATAL', 'MAX']
CUSTOM = ['VERBOSE', 'NOTICE', 'ABOVE', 'BELOW', 'ALL', 'OFF']   # ALL/OFF sit at the two ends of the int32 code space


def level_str(rng, valid=True):
    names = BUILTIN + CUSTOM

    def nm():
        n = rng.choice(names)
        k = rng.random()
        return n.lower() if k < 0.4 else n if k < 0.7 else ''.join(c.upper() if rng.random() < 0.5 else c.lower() for c in n)
    k = rng.random()
    if k < 0.1:
        s = ''
    elif k < 0.55:
        s = nm()
    else:
        s = nm() + '~' + nm()
    if rng.random() < 0.2:
        s = rng.choice(['', ' ', '\t', '  ']) + s + rng.choice(['', ' ', '\n'])
    if not valid:
        s = rng.choice(['bogus', 'INF0', 'info~', '~info', 'info~bogus', 'in fo', 'info ~warn', 'a~b~c', 'info~warn~error', 'trace~debug~bogus'])
    return s


def gen(run):
    rng = run.rng
    n = 400 if run.tier == 'quick' else 5000
    cases = []
    kinds = ['sync', 'async', 'sync', 'async', 'console', 'file', 'rolling', 'rollingsep', 'rollingasync', 'rollingsepasync']
    for _ in range(n):
        kind = rng.choice(kinds)
        lv = level_str(rng, valid=rng.random() > 0.04)
        lay = rng.random() < 0.4
        if kind in ('sync', 'async'):
            k = rng.randint(1, 4)
            refs = [level_str(rng, valid=rng.random() > 0.03) for _ in range(k)]
            if k >= 2 and rng.random() < 0.35:   # force equal lower bounds
                base = rng.choice(BUILTIN[1:-1] + CUSTOM[:2] + ['ALL'])
                refs[0] = base.lower()
                refs[1] = rng.choice([base, base + '~' + rng.choice(BUILTIN + CUSTOM)])
            rng.shuffle(refs)
            rs = ','.join(hx(r) for r in refs)
        else:
            rs = 'none'
        cases.append('%s %s %d %s' % (kind, hx(lv), 1 if lay else 0, rs))
    return cases


def nontrivial(case, obs):
    if obs == 'err':
        return False
    toks = [t.split('=')[1] for t in obs.split()]
    return len(set(toks)) >= 2   # at least two different delivery sets across the probes


def check(run):
    cases = common.corpus('C01') + gen(run)
    res = common.simple_family_check(run, 'c01', 'c01/deliver', cases, nontrivial,
        'generated single-logger configurations (kinds sync/async/console/file/rolling[sep][async], level strings over built-in and six '
        'custom levels (two at the ends of the int32 code space) in random case/spacing, 1-4 appender references in random order with forced equal lower bounds, with/without logger layout); '
        'per configuration 43 Record probes (every registered code and its neighbours) + the 14 fixed-level entry points; observable = which appender '
        'received each probe, as event or as bytes; non-trivial = at least two distinct delivery sets among the probes')
    if res:
        mo, io = res
        kinds = {}
        for c, o in zip(cases, io):
            k = c.split()[0] + ('/err' if o == 'err' else '')
            kinds[k] = kinds.get(k, 0) + 1
        run.coverage['distribution'] = kinds
        run.coverage['probes_per_case'] = 57
    return 'see streams'


def replay(run, path):
    return common.simple_replay('C01', 'c01', path)
