HOOK_COMMITS = ['6789b42', '4d327ac']
NOT_APPLICABLE = {}
COMMON_NOTE = ('Trusted: Coq 8.16.1 kernel (vm_compute, no native_compute), no axioms (Print Assumptions audited on every run), '
               'extraction via ExtrOcamlBasic only, the hand-written model and the correspondence harness (generators, Go harness built with -tags verif, canonicalisation). ')
CHECKS = {
 'C18': {
  'text': 'Full: c18_accept_iff proves, for every byte string, that the model of isValidTag accepts exactly the documented tag language (inductive spec tag_lang); '
          'c18_helpers_accepted and c18_registry_histories cover the helpers and every history of RegisterTag calls (panic iff invalid, nothing registered then, idempotent, GetAllTags = sorted duplicate-free accepted names). '
          'The model is tied to the code by comparing isValidTag (via hook) on an exhaustive boundary-alphabet window, segment-length compositions and random bytes, and RegisterTag/BuildTag/GetAllTags histories through the public API.',
  'note': COMMON_NOTE + 'Go map/string semantics are modelled, not verified.',
  'technique': 'Coq proof (model = inductive language spec, induction over histories) + differential correspondence model vs implementation',
 },
 'C09': {
  'text': 'Full: for every byte string, c09_roundtrip proves that the model of WriteLogString, read as a JSON string body by the verified decoder `unescape`, decodes to the input with each invalid UTF-8 byte replaced by one U+FFFD (so no unescaped quote, dangling backslash or raw control byte can occur: the decoder rejects them); c09_no_raw_control and c09_output_is_utf8 give the byte-level clauses; c09_go_decoder_matches_table proves the transcription of utf8.DecodeRuneInString equal to Unicode Table 3-7. '
          'The model is compared byte for byte with WriteLogString on exhaustive windows (all strings of length <=2, quick; <=3 and 4-byte boundary windows, thorough), byte sweeps at every position of plain texts and random mixes; thorough also sweeps all 2^32 four-byte strings against a Go-side oracle.',
  'note': COMMON_NOTE + 'utf8.DecodeRuneInString and bytes.Buffer are modelled, not verified.',
  'technique': 'Coq proof (round trip through a verified JSON-string decoder, UTF-8 table) + exhaustive-window differential correspondence',
 },
 'C14': {
  'text': 'Full: c14_deletes_exactly proves for every directory listing, file name, maximum age and clock value that an entry survives the model of clearExpiredFiles iff it is not (regular file, named <name>. + 14 digits, older than the cut-off); order and multiplicity are kept (c14_order_and_multiplicity_kept); corollaries for young files, directories/symlinks, prefix-sharing foreign names, the current file, and disjointness of the name/name.wf siblings. '
          'Correspondence: generated directory populations are created on disk and run through the real scan (hook VerifClearExpired), survivors compared with the model.',
  'note': COMMON_NOTE + 'Durations are unbounded Z seconds in the model (Go: int64 ns from an int32 hour count; no overflow for the quantified 1..720 h); os.ReadDir/Remove/Chtimes and mtime resolution are modelled, kept away from by a 120 s margin.',
  'technique': 'Coq proof (filter characterisation against an inductive own-file spec) + differential correspondence on real directories',
 },
 'C01': {
  'text': 'Full on the model: c01_deliver_iff proves for every reference list (any length, any order), every logger range, with or without layout and every level code in Z that each referenced appender receives the event exactly once iff the logger range and the reference\'s declarative effective range contain the level, and nothing else receives anything; c01_sort_by_level_spec proves the sort-and-chain algorithm equal to the declarative "ends at the next strictly higher lower bound" (independent of declaration / tie order); c01_rolling, c01_entry_points and c01_parse_* cover the rolling split, the 15 entry points and range strings. The built-in level table is regenerated from the code on every run (Gen/Params.v) and its well-formedness re-proved. '
          'Correspondence: generated Refresh configurations over all logger kinds, 50 probes each, observed at recording appenders / console / files.',
  'note': COMMON_NOTE + 'Levels are compared by code (a second level registered with MAX\'s code but another name is outside the model); references of one logger are assumed to name distinct appenders; strings.TrimSpace/ToUpper are modelled for ASCII; the async queue itself is C04-C06. Non-separate rolling loggers do not deliver levels >= MAX (stated in c01_rolling).',
  'technique': 'Coq proof (refinement of sort+chain to a declarative effective-range spec, permutation invariance) + differential correspondence through Refresh',
 },
 'C02': {
  'text': 'Full on the model: c02_route proves for every tag without * and without doubled underscores (c02_valid_tags_clean: every registered tag) and every tag map that findLoggerForTag returns the literal listing, else the logger listing P_* for the longest proper underscore-delimited prefix P (c02_prefixes_exact characterises the candidates), else root; c02_bind_ok / c02_error_iff prove that the map built by Refresh is exactly the union of the listings and that Refresh fails iff the root lists tags, a non-root logger lists none, a wildcard is malformed or two different loggers list the same string - a symmetric condition, hence independent of key/map order. '
          'Correspondence: per universe of ~80 registered tags, generated logger sets through Refresh; every registered tag is logged and the serving appender observed.',
  'note': COMMON_NOTE + 'The attribute value is trimmed before use (injectAttribute), modelled in the driver; strings.TrimSpace modelled for ASCII; tag lists containing ${...} are excluded (C15).',
  'technique': 'Coq proof (fuelled recursion refined to a declarative longest-prefix spec; accumulator invariant for the tag map) + differential correspondence through Refresh',
 },
 'C07': {
  'text': 'Full on the model, float/reflect leaves as run-time-checked oracle inputs: c07_encoder_is_printer proves that the separator state machine of the JSON encoder emits exactly the compact rendering of one object (members level,time,fileLine,tag,[ctxString], context fields, fields in order, map entries sorted: c07_map_sorted) for every field tree; c07_parse_print is a round-trip theorem for a verified RFC 8259 parser (all escapes, surrogates, number grammar) over every well-formed JSON AST, hence c07_decodes: the line parses to the logged data (strings sanitised, numbers as exact tokens with c07_int_roundtrip/c07_int64_payload, nil as null, non-finite floats and marshal errors as strings, reflected values as the meaning of their json.Marshal text, which the executable check_raw establishes: c07_raw_check_sound). '
          'Correspondence: JSONLayout.ToBytes vs the model byte for byte on events from every public constructor; the verified parser is applied to the implementation\'s bytes as the failing-input oracle.',
  'note': COMMON_NOTE + 'Oracle inputs: strconv.FormatFloat token (recomputed independently in Python; hypothesis valid_number checked per case), json.Marshal text (hypothesis check_raw checked per case), time.Format civil fields; bit-exactness of floats rests on strconv; jsonDepth int8 wrap beyond nesting 127 is not modelled (generator stays <= 120).',
  'technique': 'Coq proof (encoder = printer by nested induction; verified JSON parser with round-trip and prefix-stability theorems) + differential correspondence + verified-parser oracle',
 },
 'C08': {
  'text': 'Full on the model: c08_text_layout_spec (no hypothesis) proves the line is header ++ key=value tokens of context fields then fields joined by || ++ LF; c08_same_token_as_json proves each value text equals the JSON token of C07 with the quotes stripped for strings, error texts and non-finite floats and is identical otherwise (nested containers go through the proved JSON encoder); c08_no_break proves no field key/value contributes a byte < 0x20; c08_file_line(_length) give the ... + last max(W-3,0) bytes rule for every integer W. '
          'Correspondence: TextLayout.ToBytes vs the model on the C07 event stream with W in [-5,200]; any panic or control byte before the final LF is a violation by itself.',
  'note': COMMON_NOTE + 'Same oracle inputs as C07. Tag, context string, level name and file name are written raw by the code (and by the model); the generator keeps them free of control bytes - the property speaks about field keys and values.',
  'technique': 'Coq proof (text encoder refined to a declarative line spec; token equality with the proved JSON printer) + differential correspondence',
 },
 'C17': {
  'text': 'Partial. Proved on a reference implementation of Expr.g4 (not of the ANTLR runtime): c17_parser_complete - the recursive-descent parser accepts every token sequence the grammar derives (inductive derivations, nesting unbounded, optional trailing comma, dotted/indexed paths) and returns exactly the derived tree; c17_lexer_progress / c17_lexer_fuel_irrelevant - the reference lexer is total and fuel-independent; c17_later_assignment_wins / c17_map_keys_unique - the flattened result is a map in which the last assignment to a key wins. Not proved: a general theorem that lexing an arbitrary spacing of a token sequence returns that sequence (the maximal-munch / tie-breaking cases are covered by vm_compute examples and by the correspondence). '
          'Totality of the real ANTLR-generated parser is explored, not proved: mutated expressions, token soups, random bytes up to 64 KiB, deep nesting; any panic, timeout or (map and error) is a violation by itself. Correspondence: returned map / nil / error class vs the reference.',
  'note': COMMON_NOTE + 'The ANTLR 4 Go runtime and the generated lexer/parser are replaced in the model by the reference implementation; []rune conversion modelled by the UTF-8 sanitiser; strings.TrimSpace modelled with the Unicode White_Space table. Genuine defect found and fixed: quadratic error accumulation made Parse effectively non-terminating on malformed inputs of a few KiB (fix 07d24ad).',
  'technique': 'Coq proof (parser completeness w.r.t. inductive grammar derivations by mutual induction; lexer progress) + differential correspondence vs the ANTLR parser + totality exploration',
 },
 'C04': {
  'text': 'Full on the model: the async logger is an interleaving transition system (any number of producers, the worker, Stop; one rule per atomic channel operation incl. the DiscardOldest two-select loop); c04_conservation_inv is proved for every reachable state of every schedule, c04_final gives delivered+discarded=submitted, no duplicate, no phantom and disjointness once Stop has returned, c04_block that Block never discards. '
          'Correspondence: (a) deterministic operation sequences against the real AsyncLogger with its worker parked in a gated appender, compared after every operation with the run-to-completion machine that c06_seq_refines_* proves to be a schedule of the system; (b) real concurrent runs (1-32 producers) checked against the conclusions of the theorems.',
  'note': COMMON_NOTE + 'Modelled, not verified: that Go buffered channels, select/default and atomic.AddInt64 are the atomic operations of the rules; real schedules are sampled. Stop is only enabled while no log call is in progress (a send on the closed channel would panic in the code).',
  'technique': 'Coq proof (invariants over an interleaving transition system, all schedules) + gated deterministic correspondence + concurrent runs checked against theorem conclusions',
 },
 'C05': {
  'text': 'Partial. Proved for the queue on every schedule: c05_stop_flushes (everything delivered, held or buffered when Stop is called is delivered in order when it returns, any occupancy, worker idle or mid-append), c05_stop_measure/bound/progress (a strictly decreasing measure <= 2*cap+5 and no deadlock: bounded time if appender calls return). Not modelled in Coq: the composition of logger kinds, Destroy ordering and OS descriptors - these are decided by the harness only: every Refresh-built logger kind (sync/async + file appender, console, file, rolling sync/async with/without .wf, rolling appender) logs events and raw writes, Destroy runs under a watchdog, sinks are read immediately, /proc/self/fd entries into the log directory are counted (<= 2 while running, 0 after).',
  'note': COMMON_NOTE + 'Runtime residue: appender latency, OS descriptor table, fsync.',
  'technique': 'Coq proof (flush invariant + termination measure over all schedules) + gated Stop-at-occupancy correspondence + per-kind Destroy exploration with fd accounting',
 },
 'C06': {
  'text': 'Full on the model: c06_fifo_per_producer / c06_line_ordered prove per-producer submission order for delivered ++ held ++ buffered in every reachable state of every schedule; c06_overflow_rules / c06_room state the three overflow rules of the run-to-completion machine; c06_seq_refines_* prove that machine to be a schedule of the interleaving system; c06_no_wait_on_worker proves that under Discard/DiscardOldest a producer step is always enabled whatever the worker does. '
          'Correspondence: ALL sequences over {event, raw write, worker takes one} up to length 4 (quick) / 7 (thorough) from occupancies {0, cap-1, cap, cap+1} for the three policies, random long sequences, concurrent runs, and a stalled-appender stream (worker parked, buffer full, up to 32 concurrent producers must all return).',
  'note': COMMON_NOTE + 'As C04. The deterministic harness allows at most one parked producer under Block.',
  'technique': 'Coq proof (order invariant over all schedules; refinement of the sequential machine) + exhaustive bounded sequence correspondence + stalled-appender runs',
 },
 'C10': {
  'text': 'Full on the model (a reading of straight-line code): c10_enabled_once / c10_disabled_nothing / c10_order prove for all 15 entry points, all ranges, all level codes and the 8 hook subsets that an emitted event invokes each set hook exactly once (generator exactly once for Trace/Debug) in the order generator, time, context string, context fields, and that a disabled level invokes nothing. The weight is the correspondence: counting hooks and generators, each call with its own context, before Refresh and with sync/async loggers, ranges with upper bounds, reference-level-only suppression; event content (hook time, context string, context fields first) checked at the sink.',
  'note': COMMON_NOTE + 'The placement of ctx fields ahead of the call fields in the output is C07/C08.',
  'technique': 'Coq proof (case analysis of a writer-style model) + differential correspondence with counting hooks',
 },
 'C11': {
  'text': 'Partial. Proved: the skip arithmetic of both caller-lookup modes over an abstract call stack with the documented runtime.Caller/Callers semantics (c11_default_is_caller, c11_fast_is_caller, c11_modes_agree), transparency of the pc-keyed cache under any sequence of lookups (c11_cache_transparent), empty location when disabled. Runtime residue (inlining, pc-to-line tables, wrapper frames for closures/method values/generics) is covered only by the harness: the complete matrix 15 entry points x call shapes x {default, fast} x repeated calls x enableCaller on/off, expected location taken with runtime.Caller on the same source line; thorough also builds with inlining disabled.',
  'note': COMMON_NOTE + 'The model assumes the stack shape record :: entry point :: user.',
  'technique': 'Coq proof (skip arithmetic, cache invariant) + exhaustive call-shape matrix against runtime.Caller',
 },
 'C12': {
  'text': 'Full on the model: c12_every_appender_once (raw bytes reach each appender reference exactly once for every level setting and order), c12_async_snapshot (for every history of buffer overwrites, writes and worker steps each appender receives the contents at call time, once, in call order; full length reported), c12_alias_refuted (the pre-fix aliasing shape fails on a 3-step history), c12_unconfigured_name_is_error. '
          'Correspondence through named handles on Refresh-built sync/async loggers with 1-4 recording appenders, a caller recycling one buffer while the worker is parked, concurrent writers, the full-buffer overflow paths, and an unconfigured handle name.',
  'note': COMMON_NOTE + 'Queue semantics under overflow are C04/C06; the full-buffer stream is checked against the contents-at-call-time oracle rather than the (unbounded-queue) model.',
  'technique': 'Coq proof (queue-snapshot invariant over histories; permutation of references) + differential correspondence through handles',
 },
 'C13': {
  'text': 'Partial. Proved for the sequential projection of the appender (one call at a time; every history of clock advances, writes, start/stop cycles, pre-existing files): c13_seq_exactly_once_and_never_truncates (multiset accounting: nothing lost, nothing twice, nothing in two files; every file only grows by appends), c13_write_lands, c13_seq_new_interval, c13_not_before_name. The clauses over all interleavings of concurrent writers with interval boundaries are NOT proved (no small-step concurrent model of the atomic pointers / deferred close yet); they are decided by the harness: 1-16 writers across 2-4 real 1 s/2 s boundaries checked for whole / exactly-once / one-file / not-before-name.',
  'note': COMMON_NOTE + 'time.Now cannot be injected: the harness uses real boundaries, replays the observed history (operation @ second) on the model and discards scenarios in which a write straddled a second boundary. Runtime residue: scheduling against real time, O_APPEND atomicity, the deferred-close window (a writer suspended across two rotations).',
  'technique': 'Coq proof (invariant + permutation accounting over sequential histories) + real-time differential correspondence + concurrent runs checked against the stated conclusions',
 },
 'C16': {
  'text': 'Full on the (abstract) lifecycle model: for every operation sequence c16_inv_reachable (bound tags/handles always point at the running configuration; nothing is bound without a live configuration), c16_log_goes_somewhere (a log/write lands in the live configuration\'s sink, else the console - the model has no panic/block outcome), c16_second_refresh_rejected_and_harmless, c16_destroy_idempotent, c16_registration_guard, c16_destroy_then_refresh_routes, c16_failed_refresh_leaves_no_configuration. '
          'Correspondence: ALL sequences up to length 4 (quick) / 6 (thorough) over the 10-letter alphabet plus random long ones against the real package state, every call under recover and a watchdog.',
  'note': COMMON_NOTE + 'The model abstracts a configuration to an identifier; that an invalid configuration fails early/late as assumed is validated by the harness configurations (missing appenders section; unconfigured handle name with a second handle already bound).',
  'technique': 'Coq proof (invariant by induction over operation lists) + exhaustive bounded sequence correspondence',
 },
 'C19': {
  'text': 'Partial. Proved on the sequential model with a create-fault oracle: c19_keeps_current_file, c19_nothing_lost (same accounting as C13 under any outage placement), c19_write_during_outage_lands, c19_no_retry_within_interval, c19_retry_next_boundary, c19_fds_bounded. Concurrent writers during an outage and the failing-sink cases (missing directory, closed/unlinked file, failing console writer) are decided by the harness: real directory rename/restore across 1 s boundaries, every call under a watchdog.',
  'note': COMMON_NOTE + 'Assumed: an open descriptor keeps working while its directory is renamed; observed on this file system.',
  'technique': 'Coq proof (sequential fault-oracle model) + real outage scenarios replayed on the model + watchdog exploration of failing sinks',
 },
 'C03': {
  'text': 'Partial. The pooled-buffer protocol of Layout.ToBytes is modelled as an interleaving transition system over any number of goroutines, any schedule and any choice the pool makes (reuse any free buffer or allocate); the sink reads the handed bytes at the moment of its own step. c03_lines_whole_and_unmixed proves, by an 8-clause ownership invariant (c03_ownership_invariant) over all reachable states, that with ToBytes returning its own copy every Write hands the sink exactly the line of its event formatted alone; c03_one_line_per_event proves one Write per finished event and none otherwise (multiset equality); c03_alias_refuted exhibits the 6-step schedule that mixes two events when ToBytes returns the pooled slice (the shape before fix d59291c). '
          'Tie to the code: a deterministic ownership probe (b1 := ToBytes(e1); b2 := ToBytes(e2); b1 unchanged and not shared, both layouts, bufferCap 1K/4K/10K, line sizes up to 3x the cap incl. the pooled-buffer capacity boundary) decides which return mode the code implements; real concurrent runs (2-64 goroutines, console through a slow chunk-copying writer / file / rolling file) check the sink against the multiset of events formatted alone.',
  'note': COMMON_NOTE + 'sync.Pool, the Go scheduler, os.File.Write atomicity under O_APPEND and the mutex of the console/file appenders are runtime behaviour the model cannot exhibit; they are sampled by the concurrent harness (thorough: with the race detector).',
  'technique': 'Coq proof (ownership invariant over all schedules of a pooled-buffer transition system, refutation witness for the aliasing shape) + ownership probe and concurrent differential runs',
 },
 'C20': {
  'text': 'Partial. c20_no_user_buffer / c20_write_through are proved on a two-level sink model (the property is the absence of a user-space buffer, so the theorems are near-immediate); the weight is the harness: a child process logs through a synchronous logger (file, rolling-file crossing 1 s boundaries, console; both layouts; 1-4 goroutines), acknowledges every returned call on a pipe and is killed with SIGKILL after k acknowledgements or calls os.Exit right after call k; every acknowledged id must be a complete line in the target.',
  'note': COMMON_NOTE + 'Process death, not power loss: the kernel keeps written-but-unsynced data.',
  'technique': 'Coq proof (write-through invariant of a two-level sink) + crash-point exploration with a killed child process',
 },
}
