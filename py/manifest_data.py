HOOK_COMMITS = ['6789b42']
NOT_APPLICABLE = {}
COMMON_NOTE = ('Trusted: Coq 8.16.1 kernel (vm_compute, no native_compute), no axioms (Print Assumptions audited on every run), '
               'extraction via ExtrOcamlBasic only, the hand-written model and the correspondence harness (generators, Go harness built with -tags verif, canonicalisation). ')
CHECKS = {
 'C18': {
  'text': 'Full: c18_accept_iff proves, for every byte string, that the model of isValidTag accepts exactly the documented tag language (inductive spec tag_lang); '
          'c18_helpers_accepted and c18_registry_histories cover the helpers and every history of RegisterTag calls (panic iff invalid, nothing registered then, idempotent, GetAllTags = sorted duplicate-free accepted names). '
          'The model is tied to the code by comparing isValidTag (via hook) on an exhaustive boundary-alphabet window, segment-length compositions and random bytes, and RegisterTag/BuildTag/GetAllTags histories through the public API.',
  'note': COMMON_NOTE + 'Go map/string semantics are modelled, not verified.',
  'technique': 'Coq proof (model = inductive language spec, induction over histories) + differential correspondence model vs implementation',
 },
}
