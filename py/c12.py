"""C12 - raw Write reaches every appender of the named logger verbatim."""
import shutil
import common, c01
from common import hx


def payload(rng):
    k = rng.random()
    if k < 0.15:
        return b''
    if k < 0.4:
        return bytes(rng.randrange(256) for _ in range(rng.randint(1, 24)))
    if k < 0.6:
        return b'line one\nline two\n\x00\xff'
    if k < 0.8:
        return ('msg-%d written directly\n' % rng.randrange(1000)).encode()
    if k < 0.93:
        return bytes(rng.randrange(256) for _ in range(rng.choice([100, 1000, 5000])))
    n = rng.choice([65535, 65536, 65537, 70000, 200000])      # large: beyond any plausible inline / pooled size class
    return bytes([rng.randrange(256)]) * 7 + bytes(n - 7)


def gen(run):
    rng = run.rng
    n = 200 if run.tier == 'quick' else 8000
    cases = common.corpus('C12')
    for _ in range(n):
        kind = rng.choice(['sync', 'async', 'async']) + rng.choice(['', '', 'root'])     # ...root: the logger configured under the reserved name, written to through the handle of that name
        pol = rng.choice(['Block', 'Discard', 'DiscardOldest'])
        nrefs = rng.randint(1, 4)
        refs = ','.join(hx(c01.level_str(rng, valid=rng.random() > 0.02)) for _ in range(nrefs))
        ops = []
        if kind.startswith('async') and rng.random() < 0.7:
            ops.append('g')                    # the worker is parked while the caller keeps recycling its buffer
        for _ in range(rng.randint(1, 10)):
            ops.append('s' + hx(payload(rng)).replace('-', ''))
            ops.append('w')
            if rng.random() < 0.15:
                ops.append('w')                # the same content twice
        if rng.random() < 0.5:
            ops.append('s' + hx(b'OVERWRITTEN AFTER THE LAST WRITE'))
        ops.append('o')
        cases.append('%s %s %s %s' % (kind, pol, refs, ' '.join(ops)))
    return cases


def concurrent_oracle(case, obs):
    f = case.split()
    nrefs = len(f[2].split(','))
    nw, k = [int(x) for x in f[3][1:].split('.')]
    if not obs.startswith('n='):
        return obs
    parts = dict(p.split('=', 1) for p in obs.split()[2:])
    for i in range(nrefs):
        got = [bytes.fromhex(h).decode() for h in parts.get('a%d' % i, '').split(',') if h and h != '-']
        if len(got) != nw * k:
            return 'appender a%d received %d of %d writes' % (i, len(got), nw * k)
        if len(set(got)) != len(got):
            return 'duplicate delivery'
        last = {}
        for g in got:
            w, n = g[1:-1].split('.')
            if int(n) != last.get(w, -1) + 1:
                return 'writer %s: payload %s out of order or altered' % (w, g)
            last[w] = int(n)
    return 'ok'


def check(run):
    rng = run.rng
    cases = gen(run)

    def nontrivial(c, obs):
        return obs != 'err' and c.split()[0].startswith('async') and ' g ' in c or len(c.split()[2].split(',')) > 1
    common.simple_family_check(run, 'c12', 'c12/recycled-buffer', cases, nontrivial,
        'sync/async Refresh-built loggers (under an ordinary name or configured as the root logger and written to through the root handle) with 1-4 recording appenders (every reference level setting of C01, incl. ranges that exclude everything), a caller that recycles ONE buffer across writes '
        '(empty, binary with NUL and invalid UTF-8, multi-line, up to 5 KB, and large ones of 64 KiB +-1 .. 200 KB), the async worker parked while the buffer is overwritten; observable: returned lengths, handle identity, '
        'the byte strings every appender received, in order; non-trivial = several appenders, or an async logger with the worker parked', keep_empty=False)
    # concurrent writers
    tmp = common.scratch_dir('c12c')
    try:
        cc = []
        for _ in range(12 if run.tier == 'quick' else 300):
            cc.append('%s %s %s c%d.%d' % (rng.choice(['sync', 'async', 'syncroot', 'asyncroot']), 'Block', ','.join(hx(c01.level_str(rng)) for _ in range(rng.randint(1, 3))), rng.choice([1, 2, 4, 8]), rng.choice([20, 200])))
        common.write_lines(tmp + '/c', cc)
        rc, li = common.run_impl('c12', tmp + '/c', tmp + '/i', timeout=1200)
        io = common.read_lines(tmp + '/i')
        run.obligations += 1
        if rc != 0 or len(io) != len(cc):
            run.add_violation('harness-error', 'c12 concurrent rc=%s %s' % (rc, li[-1000:]), [li[-2000:]], no_input=True)
        else:
            bad = [(c, o, concurrent_oracle(c, o)) for c, o in zip(cc, io)]
            bad = [b for b in bad if b[2] != 'ok']
            for c, o, v in bad[:3]:
                run.add_violation('oracle:c12/concurrent', v, ['family c12', 'case ' + c, 'impl ' + o[:1500], 'verdict ' + v])
            if not bad:
                run.discharged += 1
            run.stream('c12/concurrent-writers', len(cc), len(cc), False, '1-8 concurrent writers with sequence-numbered payloads through one handle (byte slices from a recycled buffer and, for every other writer, strings through io.WriteString); per appender: every payload exactly once, per-writer order')
        # full buffer: the overflow paths (Block: blocking send, DiscardOldest: evict and retry) must also snapshot the bytes
        fc = []
        for _ in range(10 if run.tier == 'quick' else 200):
            pol = rng.choice(['Block', 'DiscardOldest'])
            ops = ['g', 'f101']
            for i in range(rng.randint(1, 6)):
                ops += ['s' + hx(('P%d:%s;' % (i, 'x' * rng.randint(0, 30))).encode()), 'w']
            ops += ['s' + hx(b'OVERWRITTEN;' * 4), 'o']
            fc.append('async100 %s %s %s' % (pol, hx(''), ' '.join(ops)))
        common.write_lines(tmp + '/f', fc)
        rc, li = common.run_impl('c12', tmp + '/f', tmp + '/fi', timeout=1200)
        fo = common.read_lines(tmp + '/fi')
        run.obligations += 1
        if rc != 0 or len(fo) != len(fc):
            run.add_violation('harness-error', 'c12 full-buffer rc=%s %s' % (rc, li[-1000:]), [li[-2000:]], no_input=True)
        else:
            badf = []
            for c, o in zip(fc, fo):
                ops = c.split()[3:]
                written, cur = [b'F%d;' % i for i in range(101)], b''
                for op in ops:
                    if op[0] == 's':
                        cur = bytes.fromhex(op[1:])
                    elif op == 'w':
                        written.append(cur)
                got = [bytes.fromhex(h) for h in dict(p.split('=', 1) for p in o.split()[2:]).get('a0', '').split(',') if h and h != '-'] if o.startswith('n=') else None
                v = 'ok'
                if got is None:
                    v = o
                else:
                    it = iter(written)
                    if not all(any(g == w for w in it) for g in got):
                        v = 'an appender received bytes that were not the content at call time (or out of order)'
                    elif c.split()[1] == 'Block' and got != written:
                        v = 'Block policy: not every write delivered verbatim'
                    elif got[-1:] != written[-1:]:
                        v = 'the most recent write was not delivered verbatim'
                if v != 'ok':
                    badf.append((c, o, v))
            for c, o, v in badf[:2]:
                run.add_violation('oracle:c12/full-buffer', v, ['family c12', 'case ' + c, 'impl ' + o[:1500], 'verdict ' + v])
            if not badf:
                run.discharged += 1
            run.stream('c12/full-buffer', len(fc), len(fc), False, 'bufferSize 100, worker parked, 101 writes fill the channel, then recycled-buffer writes take the overflow paths (Block / DiscardOldest); '
                       'every delivered payload must be a content-at-call-time, in order, the last write delivered last')
        # a requested handle name that no configuration declares
        gc = ['sync Block %s sAA w' % hx('')]
        common.write_lines(tmp + '/g', gc)
        rc, li = common.run_impl('c12', tmp + '/g', tmp + '/gi', args=['ghost'])
        go = common.read_lines(tmp + '/gi')
        run.obligations += 1
        if rc == 0 and go == ['err']:
            run.discharged += 1
        else:
            run.add_violation('oracle:c12/unconfigured-name', 'Refresh must fail when a requested handle name is not configured; got: %s' % (go[:1]), ['family c12 (args: ghost)', 'case ' + gc[0]])
        # the logger plugins that build their appenders themselves (Console, File, RollingFile with / without the .wf file, sync and async):
        # raw writes through the handle must reach EVERY appender of the logger - both files of a separating rolling logger
        import c05
        kc = []
        for kind in ('console', 'file', 'rolling', 'rollingsep', 'rollingasync', 'rollingsepasync', 'syncfile', 'asyncfile'):
            for lay in (0, 1):
                kc.append('%s %d Block %d %d 0' % (kind, lay, rng.choice([0, 0, 3]), rng.choice([1, 7, 40])))
        common.write_lines(tmp + '/k', kc)
        rc, li = common.run_impl('c05k', tmp + '/k', tmp + '/ki', timeout=1200)
        ko = common.read_lines(tmp + '/ki')
        run.obligations += 1
        if rc != 0 or len(ko) != len(kc):
            run.add_violation('harness-error', 'c05k (from C12) rc=%s %s' % (rc, li[-1000:]), [li[-2000:]], no_input=True)
        else:
            badk = [(c, o, c05.kinds_oracle(c, o)) for c, o in zip(kc, ko)]
            badk = [b for b in badk if b[2] != 'ok']
            for c, o, v in badk[:3]:
                run.add_violation('oracle:c12/logger-plugins', 'raw writes through the handle of a logger plugin: ' + v, ['family c05k', 'case ' + c, 'impl ' + o[:1500], 'verdict ' + v])
            if not badk:
                run.discharged += 1
            run.stream('c12/logger-plugins', len(kc), len(kc), False, 'Console / File / RollingFile (with and without .wf, sync and async) logger plugins and Logger / AsyncLogger on a file appender, with and without a logger layout: '
                       'numbered raw writes (and a few events) through the handle, then Destroy; every raw write must be, once and in order, in every file of the logger (both files when the rolling logger separates)')
    finally:
        shutil.rmtree(tmp, ignore_errors=True)
    return 'see streams'


def replay(run, path):
    lines = common.read_lines(path)
    if any(l.startswith('family c05k') for l in lines):
        import c05
        cases = [l[5:] for l in lines if l.startswith('case ')]
        tmp = common.scratch_dir('c12r')
        common.write_lines(tmp + '/c', cases)
        common.run_impl('c05k', tmp + '/c', tmp + '/i')
        rc = 0
        for c, o in zip(cases, common.read_lines(tmp + '/i')):
            v = c05.kinds_oracle(c, o)
            print(c, '\n impl:', o[:300], '\n verdict:', v)
            if v != 'ok':
                rc = 1
                print('VIOLATION property=C12 replay=' + path)
        shutil.rmtree(tmp, ignore_errors=True)
        return rc
    return common.simple_replay('C12', 'c12', path, keep_empty=False)
