"""C14 - retention cleanup deletes only this appender's own expired files."""
import os, shutil
import common
from common import hx


def gen(run):
    rng = run.rng
    n = 500 if run.tier == 'quick' else 15000
    names = [b'app.log', b'a', b'svc-1.log', b'x.y.z', b'app[1].log', b'app*.log', b'app.log.wf', b'lo g', 'журнал.log'.encode()]
    cases = []
    for ci in range(n):
        fn = rng.choice(names)
        age = rng.choice([1, 2, 24, 168, 596, 597, 600, 719, 720, rng.randint(1, 720)])
        if ci % 12 == 11:   # "keep (almost) forever": ages up to what the configuration type (int32 hours) admits, around the point where hours no longer fit a time.Duration
            age = rng.choice([8760, 87600, 876000, 2562047, 2562048, 2562049, 3000000, 5124095, 5124096, 10 ** 7, 2 ** 31 - 1, rng.randint(721, 2 ** 31 - 1)])
        cut = -age * 3600
        ents = {}

        def ts(k=14, digits=True):
            al = '0123456789' if digits else '0123456789abcXYZ_-'
            return ''.join(rng.choice(al) for _ in range(k)).encode()

        def off():
            # both sides of the cut-off, never within 120 s of it
            if age > 720:   # modification times the file system can hold (back to 1970); for ages up to 100 years both sides of the cut-off
                cands = [-1, -30, -3600, -86400 * 365, -86400 * 365 * 30, -(10 ** 9)]
                if -cut < 1.7 * 10 ** 9:
                    cands += [cut - 121, cut - 86400, cut + 121, cut + 86400]
                return rng.choice([c for c in cands if c > -1.75 * 10 ** 9 and abs(c - cut) >= 121])
            k = rng.random()
            if k < 0.45:
                return cut - rng.choice([121, 3600, 86400, 10 ** 6, 3 * 10 ** 7])
            if k < 0.9:
                return min(-1, cut + rng.choice([121, 3600, 86400, -cut - 1]))
            return rng.choice([-1, -30, 0])
        for _ in range(rng.randint(1, 14)):
            k = rng.random()
            if k < 0.35:
                nm = fn + b'.' + ts()                                   # own file
            elif k < 0.5:
                nm = fn + b'.' + rng.choice([b'wf.', b'audit.', b'1.', b'.']) + ts()   # sibling / prefix sharing
            elif k < 0.62:
                nm = fn + b'.' + rng.choice([b'bak', b'1.gz', b'tmp', b'', ts(13), ts(15), ts(14, False), ts() + b'.gz', ts() + b'~'])
            elif k < 0.72:
                nm = fn + rng.choice([b'', b'x', b'-old', b'_' + ts()])   # merely starts with the name
            elif k < 0.8:
                nm = rng.choice([b'other.log', b'README', b'zzz']) + rng.choice([b'', b'.' + ts()])
            elif k < 0.9:
                nm = rng.choice([b'x', b'pre-']) + fn + b'.' + ts()
            else:
                nm = (fn[:-1] if len(fn) > 1 else fn) + b'.' + ts()
            if not nm or nm in (b'.', b'..') or b'/' in nm or b'\x00' in nm or len(nm) > 200:
                continue
            kind = 0 if rng.random() < 0.8 else rng.choice([1, 2, 3, 4, 4])
            ents[nm] = (kind, off())
        if rng.random() < 0.3:   # the file currently being written: own name, fresh mtime
            ents[fn + b'.' + ts()] = (0, rng.choice([0, -1, -1800]))
        toks = ['%s:%d:%d' % (hx(k), v[0], v[1]) for k, v in ents.items()]
        # histories: further passes of the same appender, entries written / touched / created in between (same clock: no wait)
        if rng.random() < 0.35:
            for _ in range(rng.randint(1, 3)):
                toks.append('|0')
                for k, v in list(ents.items()):
                    if v[0] == 0 and rng.random() < 0.5:      # a regular file written to again / re-timed (restored from a backup, touched)
                        ents[k] = (0, off())
                        toks.append('%s:0:%d' % (hx(k), ents[k][1]))
                for _ in range(rng.randint(0, 3)):
                    nm = fn + b'.' + ts()
                    if nm not in ents:
                        ents[nm] = (0, off())
                        toks.append('%s:0:%d' % (hx(nm), ents[nm][1]))
        cases.append('%s %d %s' % (hx(fn), age, ' '.join(toks)))
    # histories with real waits: files whose age crosses the cut-off between two passes (3 s margins on both sides)
    for i in range(4 if run.tier == 'quick' else 40):
        fn = rng.choice(names)
        age = rng.choice([1, 2, 24, 720])
        cut = -age * 3600
        nm = [fn + b'.' + ('2024010100%04d' % (10 * i + j)).encode() for j in range(6)]
        wait = 6
        t = ['%s:0:%d' % (hx(nm[0]), cut + 3),       # young at the first pass, touched before the second: stays
             '%s:0:%d' % (hx(nm[1]), cut + 3),       # young at the first pass, expired by the second: goes at the second
             '%s:0:%d' % (hx(nm[2]), cut - 3),       # expired at the first pass, written again afterwards: the new file stays
             '%s:0:%d' % (hx(nm[3]), -10),           # fresh at the first pass, re-timed far into the past: goes at the second
             '%s:0:%d' % (hx(nm[4]), cut + wait + 3),  # young at both passes
             '%s:0:%d' % (hx(fn + b'.wf.' + nm[0][-14:]), cut - 3),   # a sibling's file
             '|%d' % wait,
             '%s:0:%d' % (hx(nm[0]), 1), '%s:0:%d' % (hx(nm[2]), 2), '%s:0:%d' % (hx(nm[3]), cut - 1000), '%s:0:%d' % (hx(nm[5]), cut + wait - 3)]
        cases.append('%s %d %s' % (hx(fn), age, ' '.join(t)))
    return cases


def nontrivial(case, obs):
    f = case.split()
    names = {t.split(':')[0] for t in f[2:] if not t.startswith('|')}
    return len(obs.split()) < len(names) and len(obs.split()) > 0   # something deleted, something kept


def recent_offset_changes():
    """(zone, days since its UTC offset last changed), most recent first - computed from the zone database, nothing hard-coded about dates"""
    import datetime
    try:
        import zoneinfo
    except Exception:
        return []
    now = datetime.datetime.now(datetime.timezone.utc)
    out = []
    for z in ('Pacific/Auckland', 'Australia/Sydney', 'Europe/Berlin', 'America/New_York', 'America/Santiago', 'Pacific/Chatham', 'Australia/Lord_Howe',
              'Africa/Casablanca', 'America/Havana', 'America/Nuuk', 'America/Asuncion', 'Asia/Beirut'):
        try:
            tz = zoneinfo.ZoneInfo(z)
        except Exception:
            continue
        cur = now.astimezone(tz).utcoffset()
        for d in range(1, 250):
            if (now - datetime.timedelta(days=d)).astimezone(tz).utcoffset() != cur:
                out.append((z, d))
                break
    return sorted(out, key=lambda x: x[1])


def rng_choice(run, l):
    return run.rng.choice(l)


def check(run):
    tmp = common.scratch_dir('c14')
    try:
        cases = gen(run)
        cor = common.VERIF + '/corpus/C14/cases.txt'
        if os.path.exists(cor):
            cases = common.read_lines(cor) + cases
        cp = tmp + '/c'
        common.write_lines(cp, cases)
        okm, lm = common.run_model('c14', cp, tmp + '/m')
        rc, li = common.run_impl('c14', cp, tmp + '/i')
        if not okm or rc != 0:
            run.add_violation('harness-error', 'c14: model ok=%s impl rc=%s %s %s' % (okm, rc, lm[-300:], li[-1500:]), [li[-2000:]], no_input=True)
            return 'harness error'
        mo, io = common.read_lines_keep(tmp + '/m'), common.read_lines_keep(tmp + '/i')
        common.compare_stage(run, 'c14/survivors', cases, mo, io, nontrivial_fn=nontrivial,
                             rule='directory populations (own / sibling / prefix-sharing / unrelated names, files, dirs, symlinks to fresh and to old files elsewhere, mtimes on both sides of the cut-off, maxAge 1..720 and, in every twelfth case, up to 2^31-1 h across the point (2562047 h) where hours stop fitting a time.Duration); a third of the cases are histories of 2-4 passes of ONE appender with files re-timed / written again / created between the passes, some with real waits so that the age of a file crosses the cut-off between two passes; observable = sorted survivors; non-trivial = at least one entry deleted and one kept')
        # the same scan in processes whose time zone changed its UTC offset recently (daylight saving): maximum ages reaching back across the change,
        # files within the hour around the cut-off. Ages are elapsed hours, whatever the wall clock did.
        zones = recent_offset_changes()
        zc = {}
        for z, d in zones[:4]:
            zl = []
            for k in (1, 2, 4):
                for rem in (0, 5):
                    age = 24 * (d + k) + rem
                    cut = -age * 3600
                    fn = rng_choice(run, [b'app.log', b'svc-1.log'])
                    ents = ['%s:0:%d' % (hx(fn + b'.202401010000%02d' % j), cut + o) for j, o in enumerate((121, 1800, 3500, 3700, 86400, -121, -1800, -3500, -3700, -86400, 10))]
                    ents.append('%s:0:%d' % (hx(fn + b'.wf.20240101000000'), cut - 1800))
                    zl.append('%s %d %s' % (hx(fn), age, ' '.join(ents)))
            zc[z] = zl
        for z, zl in zc.items():
            common.write_lines(tmp + '/zc', zl)
            okm, lm = common.run_model('c14', tmp + '/zc', tmp + '/zm')
            rc, li = common.run_impl('c14', tmp + '/zc', tmp + '/zi', env={'TZ': z})
            if not okm or rc != 0:
                run.add_violation('harness-error', 'c14 (TZ=%s): model ok=%s impl rc=%s %s' % (z, okm, rc, li[-800:]), [li[-2000:]], no_input=True)
                continue
            common.compare_stage(run, 'c14/survivors-' + z, zl, common.read_lines_keep(tmp + '/zm'), common.read_lines_keep(tmp + '/zi'), nontrivial_fn=nontrivial,
                                 rule='process time zone %s (UTC offset changed %d days ago), maximum ages reaching back across the change, files within the hour on either side of the cut-off; replay with TZ=%s' % (z, dict(zones)[z], z))
        run.coverage['zones_with_recent_offset_change'] = zones[:4]
        ages = {}
        for c in cases:
            a = int(c.split()[1]); ages[a] = ages.get(a, 0) + 1
        run.coverage['distribution'] = {'max_age_ge_597': sum(v for k, v in ages.items() if k >= 597), 'max_age_beyond_duration': sum(v for k, v in ages.items() if k > 2562047), 'cases': len(cases), 'multi_pass_histories': sum(1 for c in cases if '|' in c), 'histories_with_waits': sum(1 for c in cases if '|6' in c)}
    finally:
        shutil.rmtree(tmp, ignore_errors=True)
    return 'generated directory populations run through the real clearExpiredFiles (hook VerifClearExpired) and the verified model; see streams'


def replay(run, path):
    lines = [l[5:] for l in common.read_lines(path) if l.startswith('case ')]
    tmp = common.scratch_dir('c14r')
    common.write_lines(tmp + '/c', lines)
    env = None
    for l in common.read_lines(path):     # a stream named c14/survivors-<zone> ran in that process time zone
        if l.startswith('family c14/survivors-'):
            env = {'TZ': l[len('family c14/survivors-'):].strip()}
    common.run_model('c14', tmp + '/c', tmp + '/m'); common.run_impl('c14', tmp + '/c', tmp + '/i', env=env)
    rc = 0
    for c, m, i in zip(lines, common.read_lines_keep(tmp + '/m'), common.read_lines_keep(tmp + '/i')):
        print(c, '\n impl :', i, '\n model:', m)
        if m != i:
            rc = 1
            print('VIOLATION property=C14 replay=' + path)
    shutil.rmtree(tmp, ignore_errors=True)
    return rc
