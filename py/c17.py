"""C17 - config-expression parser is total and flattens well-formed input exactly."""
import common, exprgen
from common import hx


def check(run):
    rng = run.rng
    g = exprgen.ExprGen(rng)
    quick = run.tier == 'quick'
    n1, n2 = (4000, 5000) if quick else (150000, 200000)
    valid = [g.valid() for _ in range(n1)]
    fixed = [b'A{a="x\\/y"}', b'', b' ', b'\x0b', b'A{}', b'A{a=1.}', b'A{a=1.5.b=2}', b'A{a[0x1F].b=+.5e-3,}', b'\xc2\xa0A{}\xe2\x80\x83',
             b'A{a=1,,}', b'A{,}', b'A{a=B{c=D{}}}', b'A{type=x}', b'A{a=B{},a.type=z}', b'A{a="C:\\\\temp\\\\new"}', b'A{a="\n"}',
             b'A{a=1e}', b'A{a=0x}', b'A{a=+}', b'A{a=.}', b'A { a = 1 , b = "x" , }', b'A{a=1 b=2}']
    deep = [(b'A{a=' * d) + b'B{}' + (b'}' * d) for d in (1, 6, 50, 300)] + [(b'A{a=' * d) for d in (10, 200)]
    tot = [g.mutated() for _ in range(n2 // 2)] + [g.soup() for _ in range(n2 // 4)] + \
          [bytes(rng.randrange(256) for _ in range(rng.choice([0, 1, 3, 10, 40]))) for _ in range(n2 // 4)]
    big = []
    for size in ([2000, 20000] if quick else [2000, 20000, 65536]):
        big.append(bytes(rng.randrange(256) for _ in range(size)))
        big.append((b'A{' + b','.join(b'k%d=%d' % (i, i) for i in range(size // 8)) + b'}'))
    for name, ins, rule in (
            ('c17/valid', fixed + valid + deep, 'grammar-generated expressions (nesting <= 6 and a deep-nesting stream, every literal kind, every admitted escape, raw non-ASCII text, hex/sign/exponent forms, dotted/indexed paths, duplicate keys, random token spacing, trailing commas); observable = the returned map (sorted) / nil / err'),
            ('c17/totality', tot + big, 'mutated expressions, token soups, random bytes, large inputs; observable = ok+map / nil / err / panic / timeout / both')):
        cases = ['p ' + hx(s) for s in common.corpus('C17') and [] or ins]
        if name == 'c17/valid':
            cases = common.corpus('C17') + cases

        def nontrivial(c, obs):
            return obs.startswith('ok ') and len(obs.split()) >= 3
        res = common.simple_family_check(run, 'c17', name, cases, nontrivial if name == 'c17/valid' else (lambda c, o: True), rule, keep_empty=False, timeout=3000)
        if res:
            mo, io = res
            cls = {}
            for o in io:
                k = o.split()[0]
                cls[k] = cls.get(k, 0) + 1
            run.coverage.setdefault('distribution', {})[name] = cls
            bad = [c for c, o in zip(cases, io) if o.split()[0] in ('panic', 'timeout', 'both')]
            run.obligations += 1
            if bad:
                for c in bad[:2]:
                    run.add_violation('oracle:totality', 'expr.Parse panicked / hung / returned both a map and an error', ['family c17', 'case ' + c])
            else:
                run.discharged += 1
    return 'expr.Parse (ANTLR) vs the reference parser for Expr.g4, on the returned map or the error class; any panic/timeout/both is a violation by itself'


def replay(run, path):
    return common.simple_replay('C17', 'c17', path, keep_empty=False)
