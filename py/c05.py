"""C05 - Stop/Destroy terminates and flushes everything accepted before it."""
import shutil
import common, asyncgen


def kinds_oracle(case, obs):
    f = case.split()
    kind, ne, nr = f[0], int(f[3]), int(f[4])
    if obs.startswith('refresh-error'):
        return obs
    p = obs.split(' ')
    if len(p) != 4:
        return 'bad-observation'
    if p[0].startswith('log-call'):
        return p[0]
    ret, ids, before, after = p[0], [x for x in p[1].split(',') if x], int(p[2]), int(p[3])
    if ret != '1':
        return 'destroy-did-not-return'
    want = [str(i) for i in range(ne + nr)]
    if kind in ('rollingsep', 'rollingsepasync'):
        # events at ERROR go to the .wf file, raw writes to BOTH files (every appender of the logger)
        want2 = sorted(want + [str(i) for i in range(ne, ne + nr)], key=int)
        if sorted(ids, key=int) != want2:
            return 'missing-or-duplicated:%s' % ','.join(sorted(set(want) - set(ids), key=int)[:5])
    elif ids != want:
        return 'not-all-accepted-items-in-order (got %d of %d)' % (len(ids), len(want))
    if after != 0:
        return 'open-descriptors-after-destroy:%d' % after
    if kind != 'console' and before > (4 if 'sep' in kind else 2):
        return 'more-than-two-descriptors-per-appender:%d' % before
    return 'ok'


def appender_oracle(case, obs):
    kind, script = case.split()
    p = obs.split(' | ')
    if len(p) != 3:
        return 'bad-observation'
    outs, ids, fds = p[0].split(','), [x for x in p[1].split(',') if x], int(p[2])
    if len(outs) != len(script):
        return 'bad-observation'
    started, n, required = False, 0, []
    for ch, o in zip(script, outs):
        if o.startswith('panic'):
            return 'an appender call panicked: %s at %s' % (o, ch)
        if ch == 'S':
            if o != 'ok':
                return 'Start failed'
            started = True
        elif ch == 'X':
            started = False
        else:
            if started:
                required.append(str(n))
            n += 1
    it = iter(ids)
    if not all(any(x == r for x in it) for r in required):
        return 'lines written between Start and Stop are not all readable in order: want %s got %s' % (','.join(required), ','.join(ids))
    if len(set(ids)) != len(ids):
        return 'a line is there twice'
    if script.endswith('X') and kind != 'console' and fds != 0:
        return 'open-descriptors-after-stop:%d' % fds
    return 'ok'


def check(run):
    rng = run.rng
    quick = run.tier == 'quick'
    # 1. the queue: Stop at every interesting occupancy, worker idle / holding, three policies
    cases = common.corpus('C05')
    for pol in asyncgen.POLICIES:
        for cap in ([100] if quick else [100, 101, 130]):
            for occ in sorted({0, 1, 2, cap - 1, cap, cap + 1, rng.randint(3, cap - 2), rng.randint(3, cap - 2)}):
                for pre_takes in (0, 1, 2):
                    ops = asyncgen.fill_prefix(cap, occ, mixed=(pre_takes == 1 or rng.random() < 0.3)) + ['T'] * pre_takes
                    if rng.random() < 0.5:
                        ops.append('w1.0')
                    cases.append('%d %s %s X' % (cap, pol, ' '.join(ops)))

    def nontrivial(c, obs):
        return len(c.split()) > 5
    common.simple_family_check(run, 'c04', 'c05/stop-at-occupancy', cases, nontrivial,
        'Stop called at buffer occupancies {0,1,2,cap-1,cap,cap+1,random} with the worker idle or parked mid-append, three policies, the buffered items all events or a mix of events, raw writes and zero-length (nil / empty) raw writes; observable: everything accepted is '
        'delivered in order when Stop returns, Stop returns within the deadline', keep_empty=False, timeout=3000)
    # 2. every logger kind through Refresh + Destroy, sinks read immediately, descriptors
    kinds = ['syncfile', 'asyncfile', 'fifofile', 'console', 'file', 'rolling', 'rollingsep', 'rollingasync', 'rollingsepasync', 'syncrollingapp']
    kcases = []
    for kind in kinds:
        for lay in (0, 1):
            for pol in (['Block'] if kind in ('syncfile', 'fifofile', 'console', 'file', 'rolling', 'rollingsep', 'syncrollingapp') else ['Block', 'Discard', 'DiscardOldest']):
                for _ in range(1 if quick else 6):
                    kcases.append('%s %d %s %d %d %d' % (kind, lay, pol, rng.choice([0, 1, 7, 60]), rng.choice([0, 1, 5]), 1 if rng.random() < 0.3 else 0))
    # an appender shared by several loggers: whatever the order in which Destroy stops them, the buffered items of the asynchronous one reach the file
    for _ in range(4 if quick else 24):
        kcases.append('sharedapp %d Block %d %d 0' % (rng.randint(0, 1), rng.choice([50000, 60000]), rng.choice([0, 5])))   # most of the burst is still buffered when Destroy is called
    # rolling kinds again with the events spread over three rotation boundaries (descriptors are retired and closed on the way)
    for kind in ('rolling', 'rollingsep', 'rollingasync', 'syncrollingapp'):
        kcases.append('%s %d Block %d %d 0 3300' % (kind, rng.randint(0, 1), rng.choice([12, 40]), rng.choice([0, 3])))
    tmp = common.scratch_dir('c05k')
    try:
        common.write_lines(tmp + '/c', kcases)
        rc, li = common.run_impl('c05k', tmp + '/c', tmp + '/i', timeout=3000)
        io = common.read_lines(tmp + '/i')
        run.obligations += 1
        if rc != 0 or len(io) != len(kcases):
            run.add_violation('harness-error', 'c05k rc=%s lines=%d/%d %s' % (rc, len(io), len(kcases), li[-1500:]), [li[-2000:]], no_input=True)
        else:
            bad = [(c, o, kinds_oracle(c, o)) for c, o in zip(kcases, io)]
            bad = [b for b in bad if b[2] != 'ok']
            for c, o, v in bad[:3]:
                run.add_violation('oracle:c05/kinds', 'after Destroy returned: ' + v, ['family c05k', 'case ' + c, 'impl ' + o[:2000], 'verdict ' + v])
            if not bad:
                run.discharged += 1
            run.stream('c05/logger-kinds', len(kcases), len(kcases), False, 'Refresh-built loggers of every kind (sync/async with file appender, console, file, rolling sync/async with/without .wf, rolling appender, a file appender shared by an asynchronous and four synchronous loggers), '
                       'with/without logger layout, in a third of the cases after a second Refresh that was rejected; events + raw writes (with nil and empty raw writes in between), then Destroy under a watchdog; sinks read immediately; descriptors into the log directory counted before/after')
            run.coverage['samples'].append({'stream': 'c05/logger-kinds', 'case': kcases[0], 'observation': io[0][:200]})
        # 3. appenders built directly: Stop once or twice, Stop without Start, Start again after Stop, writes outside Start..Stop
        acases = []
        for kind in ('file', 'rolling', 'console'):
            for script in ('SwwX', 'SwwXX', 'X', 'XX', 'SX', 'SXX', 'SwXSwwX', 'SwXSwXX', 'SwXwX', 'SwXXSwXXX', 'SwwwXXwX'):   # never a write before the first Start: that is misuse, not a lifecycle
                acases.append('%s %s' % (kind, script))
        common.write_lines(tmp + '/a', acases)
        rc, li = common.run_impl('c05a', tmp + '/a', tmp + '/ai', timeout=600)
        ao = common.read_lines(tmp + '/ai')
        run.obligations += 1
        if rc != 0 or len(ao) != len(acases):
            run.add_violation('harness-error', 'c05a rc=%s lines=%d/%d %s' % (rc, len(ao), len(acases), li[-1500:]), [li[-2000:]], no_input=True)
        else:
            bada = [(c, o, appender_oracle(c, o)) for c, o in zip(acases, ao)]
            bada = [b for b in bada if b[2] != 'ok']
            for c, o, v in bada[:3]:
                run.add_violation('oracle:c05/appender-scripts', v, ['family c05a', 'case ' + c, 'impl ' + o[:1000], 'verdict ' + v])
            if not bada:
                run.discharged += 1
            run.stream('c05/appender-scripts', len(acases), len(acases), True, 'File / RollingFile / Console appenders built directly and driven by scripts over {Start, write, Stop}: Stop once, twice and three times, Stop without Start, '
                       'Start again after Stop, writes after a Stop; no call may panic, every line written between a Start and the next Stop is readable in order, no descriptor stays open after the last Stop')
    finally:
        shutil.rmtree(tmp, ignore_errors=True)
    return 'see streams'


def replay(run, path):
    lines = common.read_lines(path)
    if any(l.startswith('family c05a') for l in lines):
        cases = [l[5:] for l in lines if l.startswith('case ')]
        tmp = common.scratch_dir('c05r')
        common.write_lines(tmp + '/c', cases)
        common.run_impl('c05a', tmp + '/c', tmp + '/i')
        rc = 0
        for c, o in zip(cases, common.read_lines(tmp + '/i')):
            v = appender_oracle(c, o)
            print(c, '\n impl:', o[:500], '\n verdict:', v)
            if v != 'ok':
                rc = 1
                print('VIOLATION property=C05 replay=' + path)
        shutil.rmtree(tmp, ignore_errors=True)
        return rc
    fam = 'c05k' if any(l.startswith('family c05k') for l in lines) else 'c04'
    if fam == 'c04':
        return common.simple_replay('C05', 'c04', path, keep_empty=False)
    cases = [l[5:] for l in lines if l.startswith('case ')]
    tmp = common.scratch_dir('c05r')
    common.write_lines(tmp + '/c', cases)
    common.run_impl('c05k', tmp + '/c', tmp + '/i')
    rc = 0
    for c, o in zip(cases, common.read_lines(tmp + '/i')):
        v = kinds_oracle(c, o)
        print(c, '\n impl:', o[:500], '\n verdict:', v)
        if v != 'ok':
            rc = 1
            print('VIOLATION property=C05 replay=' + path)
    shutil.rmtree(tmp, ignore_errors=True)
    return rc
