"""Operation-sequence generators shared by C04, C05, C06 (gated, deterministic async-logger harness)."""
import itertools

POLICIES = ['Block', 'Discard', 'DiscardOldest']


def fill_prefix(cap, occ, mixed=False):
    """ops that bring the logger to a given occupancy: occ = 0..cap buffered items + 1 for a parked worker when occ > 0;
    mixed: the items are events, raw writes and zero-length raw writes (nil and empty) in turn"""
    ops = []
    for i in range(occ):
        ops.append(('ewzez'[i % 5] if mixed else 'e') + '9.%d' % i)
    return ops


class Seq:
    def __init__(self):
        self.n = {}

    def sub(self, kind, p):
        k = self.n.get(p, 0)
        self.n[p] = k + 1
        return '%s%d.%d' % (kind, p, k)


class Occ:
    """generator-side bookkeeping (buffer count, worker holding, parked producers) used only to keep the generated
    sequences inside the deterministic envelope of the gated harness: at most one parked producer, no Stop while one is parked"""
    def __init__(self, cap, pol, occ):
        self.cap, self.pol = cap, pol
        self.b, self.h, self.blocked = 0, 0, 0
        for _ in range(occ):
            self.submit()

    def submit(self):
        if self.b < self.cap:
            self.b += 1
        elif self.pol == 'Block':
            self.blocked += 1
        if not self.h and self.b > 0:
            self.h, self.b = 1, self.b - 1

    def would_block(self):
        return self.pol == 'Block' and self.b >= self.cap

    def take(self):
        if self.h:
            self.h = 0
            if self.b > 0:
                self.b -= 1
                self.h = 1
                if self.blocked:
                    self.blocked -= 1
                    self.b += 1


def random_sequence(rng, cap, pol, length, allow_stop=True, occ=0):
    s = Seq()
    st = Occ(cap, pol, occ)
    ops = []
    for _ in range(length):
        k = rng.random()
        if k < 0.62:
            if st.would_block() and st.blocked >= 1:
                ops.append('T'); st.take(); continue
            ops.append(s.sub(rng.choice('eeeewwwz'), rng.randrange(3)))     # events, raw writes, zero-length raw writes
            st.submit()
        elif k < 0.68:
            ops.append(s.sub(rng.choice('du'), rng.randrange(3)))     # not enabled: below / at-or-above the logger's range
        else:
            ops.append('T'); st.take()
    if allow_stop and rng.random() < 0.7:
        while st.blocked:
            ops.append('T'); st.take()
        ops.append('X')
    return ops


def exhaustive(alphabet_len):
    """all sequences over {e, w, T} up to the given length (as kind letters)"""
    for L in range(0, alphabet_len + 1):
        for t in itertools.product('ewT', repeat=L):
            yield t


def variant(rng):
    """policy suffix: +L = logger-level layout and a lower-bounded reference, +U = the logger's range has an upper bound"""
    return rng.choice(['', '', '+L', '+U', '+L+U'])


def adapt(ops, suffix):
    """events at or above an upper bound (kind u) only exist when the logger's range has one"""
    return ops if '+U' in suffix else [('d' + o[1:]) if o[0] == 'u' else o for o in ops]
