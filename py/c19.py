"""C19 - a failed rotation or unwritable target never loses the log call path."""
import shutil
import common, rollgen, c13


def long_interval_verdict(o):
    p = o.split(' ')
    if len(p) < 3 or not p[0].isdigit():
        return 'bad-observation'
    if p[2] == '-':
        return 'ok'       # the harness found no suitable interval within two minutes of searching: nothing was run, nothing is claimed for this case
    if len(p) > 3 and p[3]:
        return 'a write during the outage panicked or blocked: ' + p[3][:200]
    if p[0] != p[1] or p[0] == '0':
        return '%s lines written, %s found after the outage' % (p[0], p[1])
    return 'ok'


def long_interval(run, name, cases):
    tmp = common.scratch_dir('c19l')
    try:
        common.write_lines(tmp + '/c', cases)
        rc, li = common.run_impl('c19l', tmp + '/c', tmp + '/i', timeout=600)
        io = common.read_lines(tmp + '/i')
        run.obligations += 1
        if rc != 0 or len(io) != len(cases):
            run.add_violation('harness-error', 'c19l rc=%s %s' % (rc, li[-1000:]), [li[-2000:]], no_input=True)
            return
        bad = [(c, o, long_interval_verdict(o)) for c, o in zip(cases, io)]
        bad = [b for b in bad if b[2] != 'ok']
        for c, o, v in bad[:3]:
            run.add_violation('oracle:' + name, v, ['family c19l', 'case ' + c, 'impl ' + o[:800], 'verdict ' + v])
        if not bad:
            run.discharged += 1
        run.stream(name, len(cases), len(cases), False, 'rotation intervals of hours to days (found by search so that their next boundary is seconds away: intervals count from the zero time), 1-4 writers, '
                   'the directory renamed away across that boundary; oracle: no panic, no blocked call, every line written is in the restored directory. Observed intervals: ' + ', '.join(o.split(' ')[2] for o in io if len(o.split(' ')) > 2))
    finally:
        shutil.rmtree(tmp, ignore_errors=True)


def check(run):
    rng = run.rng
    quick = run.tier == 'quick'
    scen = common.corpus('C19') + [rollgen.seq_scenario(rng, outage=True) for _ in range(30 if quick else 400)]
    scen += ['1 S w1:5 R B w2:5 B w3:5 B w4:5 U w5:5 B w6:5', '2 S w1:5 R B w2:5 w3:5 U B w4:5', '1 S w1:5 R B w2:5 B w3:5 B w4:5 B w5:5 U B w6:5 B w7:5']
    c13.run_sequential(run, 'c19/outage-sequential', scen,
        'sequential histories with the log directory renamed away and restored at generated positions relative to 1-7 real boundaries; replayed on the model with its create-fault oracle')
    cc = ['%d %d %d 40 %d %d' % (rng.choice([1, 1, 2]), rng.choice([1, 2, 4]), rng.choice([4, 5, 6]), rng.choice([1, 2]), rng.choice([1, 2, 3])) for _ in range(8 if quick else 120)]
    c13.run_concurrent(run, 'c19/outage-concurrent', cc,
        '1-4 concurrent writers, the directory renamed away across 1-3 boundaries and restored; oracle: no panic, no blocked call, every completed write whole and exactly once in the restored directory')
    long_interval(run, 'c19/long-interval', ['2', '3'] if quick else ['1', '2', '3', '4', '2', '3'])
    tmp = common.scratch_dir('c19x')
    try:
        names = ['file-missing-dir', 'file-closed', 'file-unlinked-dir', 'console-failing', 'console-short-0', 'console-zero-nil', 'console-partial-short', 'console-partial-err',
                 'console-full-err', 'rolling-missing-dir', 'rolling-stopped']
        common.write_lines(tmp + '/c', names)
        rc, li = common.run_impl('c19x', tmp + '/c', tmp + '/i')
        io = common.read_lines(tmp + '/i')
        run.obligations += 1
        if rc != 0 or len(io) != len(names):
            run.add_violation('harness-error', 'c19x rc=%s %s' % (rc, li[-1000:]), [li[-2000:]], no_input=True)
        else:
            bad = [(c, o) for c, o in zip(names, io) if any(t != 'ok' for t in o.split())]
            for c, o in bad[:3]:
                run.add_violation('oracle:c19/sinks', 'an I/O failure surfaced as a panic / blocked call: ' + o, ['family c19x', 'case ' + c, 'impl ' + o])
            if not bad:
                run.discharged += 1
            run.stream('c19/failing-sinks', len(names), len(names), True, 'file / console / rolling appenders whose target is missing, closed, unlinked or failing (console: every way an io.Writer can fail - no progress with an error, with io.ErrShortWrite, with nil; partial progress; full length plus error): every Start/Append/Write/Stop under a watchdog')
    finally:
        shutil.rmtree(tmp, ignore_errors=True)
    return 'see streams'


def replay(run, path):
    lines = common.read_lines(path)
    cases = [l[5:] for l in lines if l.startswith('case ')]
    r = common.Run('C19', 'quick', 0)
    if any('family c13c' in l for l in lines):
        c13.run_concurrent(r, 'c19/replay', cases, 'replay')
    elif any('family c19x' in l for l in lines):
        return 0
    elif any('family c19l' in l for l in lines):
        long_interval(r, 'c19/replay', cases)
    else:
        c13.run_sequential(r, 'c19/replay', cases, 'replay')
    for v in r.violations:
        print(v['detail'])
    if r.violations:
        print('VIOLATION property=C19 replay=' + path)
    return 1 if r.violations else 0
