"""Generator of configuration maps for C15: valid configurations over the registered plugin types in several
equivalent renderings (key spellings, inline '!' expressions vs flat keys, single vs indexed elements), and
mutations of them (ill-typed values, unknown types, missing elements, dangling references, hostile keys)."""
from common import hx

ROTATIONS = ['h', '30m', '10m']
LEVELS = ['', 'INFO', 'info', 'WARN~FATAL', 'debug~error', ' TRACE ', 'NONE~MAX', 'ERROR~MAX']
TAGS = ['_c15', '_c15_a', '_c15_b_*', 'app_*', 'biz_def', 'rpc_x_y', '_k_*', 'app_c15_z']
BAD_INT = ['abc', '1.5', '', '99999999999999999999', '0x', '1__0', '_1', '1_', '08', '0b2', '+-1', '१२']
GOOD_INT = ['0', '7', ' 42 ', '+5', '-3', '0x1F', '0b101', '0o17', '017', '1_000', '0x_1F', '0X1f', '-0']
BAD_BOOL = ['yes', 'TRUe', '2', '', 'on']
GOOD_BOOL = ['true', 'false', 'T', 'F', '1', '0', 'TRUE', 'False', ' t ']
BAD_LEVEL = ['BOGUS', 'INFO~', '~', '~INFO', 'INFO~BOGUS', 'I NFO']
BAD_POLICY = ['discard', 'Block ', '', 'Drop', 'DISCARD']
BAD_ROT = ['1h', 'H', '', 'daily']


def camel(key):
    """toCamelKey, used only to keep generated maps free of keys that collide after normalisation"""
    if not key:
        return ''
    b = key
    c = b[0]
    r = [c.lower() if 'A' <= c <= 'Z' else c]
    lower_next = upper_next = False
    for c in b[1:]:
        if c == '.':
            lower_next = True
            r.append(c)
            continue
        if c in '-_':
            upper_next = True
            continue
        if lower_next:
            if 'A' <= c <= 'Z':
                c = c.lower()
            lower_next = False
        elif upper_next:
            if 'a' <= c <= 'z':
                c = c.upper()
            upper_next = False
        r.append(c)
    return ''.join(r)


def spell(words, style):
    if style == 'camel':
        return words[0] + ''.join(w[:1].upper() + w[1:] for w in words[1:])
    if style == 'kebab':
        return '-'.join(words)
    if style == 'snake':
        return '_'.join(words)
    if style == 'pascal':
        return ''.join(w[:1].upper() + w[1:] for w in words)
    if style == 'mixed':
        return words[0] + ''.join(('-' if i % 2 else '_') + w for i, w in enumerate(words[1:]))
    raise ValueError(style)


STYLES = ['camel', 'kebab', 'snake', 'pascal', 'mixed']


class Seg:
    """a key segment: a word list with an optional list index"""
    def __init__(self, words, index=None):
        self.words = words.split() if isinstance(words, str) else list(words)
        self.index = index

    def render(self, style):
        s = spell(self.words, style)
        return s if self.index is None else '%s[%d]' % (s, self.index)

    def ident(self, style):
        """rendering usable as a fieldAccess part of an expression (no '-')"""
        st = style if style in ('camel', 'snake', 'pascal') else 'snake'
        return self.render(st)


def S(*parts):
    return tuple(p if isinstance(p, Seg) else Seg(p) for p in parts)


class Cfg:
    """canonical configuration: list of (segments, value); top-level properties are one-segment keys"""
    def __init__(self):
        self.items = []
        self.notes = []

    def add(self, segs, value):
        self.items.append((segs, value))

    def render_flat(self, rng, style=None):
        out = {}
        for segs, v in self.items:
            k = '.'.join(s.render(style or rng.choice(STYLES)) for s in segs)
            out[k] = v
        return out

    def subtrees(self):
        """prefixes P such that P.type is set to an identifier: they can be written inline as `P!`"""
        res = []
        for segs, v in self.items:
            if len(segs) >= 2 and segs[-1].words == ['type'] and segs[-1].index is None and is_ident(v):
                res.append(segs[:-1])
        return res

    def render_inline(self, rng, prefixes):
        """renders the sub-trees at the given (non-nested) prefixes as '!' expressions, everything else flat"""
        out = {}
        groups = {p: [] for p in prefixes}
        for segs, v in self.items:
            for p in prefixes:
                if len(segs) > len(p) and all(same_seg(a, b) for a, b in zip(p, segs)):
                    groups[p].append((segs[len(p):], v))
                    break
            else:
                out['.'.join(s.render(rng.choice(STYLES)) for s in segs)] = v
        for p, sub in groups.items():
            out['.'.join(s.render(rng.choice(STYLES)) for s in p) + '!'] = render_expr(rng, sub)
        return out


def same_seg(a, b):
    return a.words == b.words and a.index == b.index


def is_ident(v):
    return bool(v) and (v[0].isalpha() or v[0] == '_') and all(c.isalnum() or c == '_' for c in v) and v.isascii()


def quote(v):
    m = {'"': '\\"', '\\': '\\\\', '\n': '\\n', '\t': '\\t', '\r': '\\r', '\b': '\\b', '\f': '\\f'}
    return '"' + ''.join(m.get(c, c) for c in v) + '"'


def render_value(rng, v):
    if is_ident(v) and rng.random() < 0.6:
        return v
    if v.isdigit() and v.isascii() and rng.random() < 0.6:
        return v
    return quote(v)


def render_expr(rng, sub):
    """sub: list of (relative segments, value) containing ([type], T). Nested sub-trees with their own type are
    written as nested expressions half of the time."""
    ty = [v for segs, v in sub if len(segs) == 1 and segs[0].words == ['type'] and segs[0].index is None][0]
    rest = [(segs, v) for segs, v in sub if not (len(segs) == 1 and segs[0].words == ['type'] and segs[0].index is None)]
    # nested candidates: relative prefixes q with q.type an identifier
    nested = []
    for segs, v in rest:
        if len(segs) >= 2 and segs[-1].words == ['type'] and segs[-1].index is None and is_ident(v) and rng.random() < 0.5:
            q = segs[:-1]
            if not any(len(q) >= len(n) and all(same_seg(a, b) for a, b in zip(n, q)) for n in nested):
                nested.append(q)
    parts = []
    done = set()
    for q in nested:
        inner = [(segs[len(q):], v) for segs, v in rest if len(segs) > len(q) and all(same_seg(a, b) for a, b in zip(q, segs))]
        for i, (segs, v) in enumerate(rest):
            if len(segs) > len(q) and all(same_seg(a, b) for a, b in zip(q, segs)):
                done.add(i)
        parts.append('.'.join(s.ident(rng.choice(STYLES)) for s in q) + ' = ' + render_expr(rng, inner))
    for i, (segs, v) in enumerate(rest):
        if i in done:
            continue
        parts.append('.'.join(s.ident(rng.choice(STYLES)) for s in segs) + rng.choice([' = ', '=', ' =\n ']) + render_value(rng, v))
    rng.shuffle(parts)
    sep = rng.choice([', ', ',', ' ,\n'])
    if not parts:
        return ty + rng.choice([' ', '']) + rng.choice(['{}', '{ }'])
    return ty + rng.choice([' ', '']) + '{' + sep.join(parts) + rng.choice(['', ',', ' ']) + '}'


class ConfigGen:
    def __init__(self, rng):
        self.rng = rng

    def layout(self, cfg, prefix, p=0.5):
        r = self.rng
        if r.random() < p:
            cfg.add(prefix + S('layout', 'type'), r.choice(['TextLayout', 'JSONLayout']))
            if r.random() < 0.5:
                cfg.add(prefix + S('layout', 'file line length'), r.choice(['0', '1', '30', '48', ' 64 ', '0x20']))

    def valid(self):
        """returns a canonical valid configuration"""
        r = self.rng
        cfg = Cfg()
        names = r.sample([['a'], ['b'], ['file', 'one'], ['cons'], ['roll'], ['x1'], ['my', 'app', 'sink']], r.randint(1, 4))
        anames = []
        for n, words in enumerate(names):
            p = S('appender', Seg(words))
            anames.append(spell(words, 'camel'))
            t = r.choice(['Console', 'Discard', 'File', 'RollingFile'])
            cfg.add(p + S('type'), t)
            if t in ('Console', 'File', 'RollingFile'):
                self.layout(cfg, p)
            if t in ('File', 'RollingFile'):
                if r.random() < 0.5:
                    cfg.add(p + S('file dir'), './logs')
                cfg.add(p + S('file name'), 'f%d.log' % n)
            if t == 'RollingFile':
                cfg.add(p + S('rotation'), r.choice(ROTATIONS))
                cfg.add(p + S('max age'), r.choice(['1', '24', '168', '720', '-1', '2147483647']))
        lnames = r.sample([['l1'], ['l2'], ['biz', 'log'], ['root'], ['audit']], r.randint(0, 3))
        tags = r.sample(TAGS, len(TAGS))
        for n, words in enumerate(lnames):
            p = S('logger', Seg(words))
            t = r.choice(['Logger', 'Logger', 'AsyncLogger', 'Discard', 'Console', 'File', 'RollingFile'])
            cfg.add(p + S('type'), t)
            if words != ['root']:
                k = r.randint(1, 2)
                cfg.add(p + S('tags'), r.choice([',', ' , ', ',,']).join(tags[2 * n:2 * n + k]))
            elif r.random() < 0.3:
                cfg.add(p + S('tags'), r.choice(['', ' ']))
            if r.random() < 0.6:
                cfg.add(p + S('level'), r.choice(LEVELS))
            self.layout(cfg, p, 0.3)
            if t in ('Logger', 'AsyncLogger'):
                refs = r.sample(anames, r.randint(1, len(anames)))
                if len(refs) == 1 and r.random() < 0.5:
                    cfg.add(p + S('appender ref', 'ref'), refs[0])
                    if r.random() < 0.5:
                        cfg.add(p + S('appender ref', 'level'), r.choice(LEVELS))
                else:
                    for i, ref in enumerate(refs):
                        cfg.add(p + (Seg('appender ref', i), Seg('ref')), ref)
                        if r.random() < 0.2:
                            cfg.add(p + (Seg('appender ref', i), Seg('type')), 'AppenderRef')
                        if r.random() < 0.5:
                            cfg.add(p + (Seg('appender ref', i), Seg('level')), r.choice(LEVELS))
            if t == 'AsyncLogger' or (t == 'RollingFile' and r.random() < 0.5):
                if t == 'RollingFile':
                    cfg.add(p + S('async'), r.choice(['true', 'T', '1']))
                if r.random() < 0.6:
                    cfg.add(p + S('buffer size'), r.choice(['100', '128', '10000', '0x100', '1_000']))
                if r.random() < 0.6:
                    cfg.add(p + S('buffer full policy'), r.choice(['Block', 'Discard', 'DiscardOldest']))
            if t == 'File':
                cfg.add(p + S('file name'), 'lf%d.log' % n)
            if t == 'RollingFile':
                cfg.add(p + S('rotation'), r.choice(ROTATIONS))
                if r.random() < 0.5:
                    cfg.add(p + S('file name'), 'lr%d.log' % n)
                if r.random() < 0.5:
                    cfg.add(p + S('separate'), r.choice(GOOD_BOOL))
                if r.random() < 0.5:
                    cfg.add(p + S('max age'), r.choice(['1', '168']))
        if r.random() < 0.12:
            # a long indexed list (more than ten entries: index order is numeric, not lexicographic)
            n = r.choice([11, 12, 13, 21])
            for i in range(n):
                cfg.add(S('appender', Seg(['m%d' % i]), 'type'), 'Discard')
            p = S('logger', Seg(['biglist']))
            cfg.add(p + S('type'), r.choice(['Logger', 'AsyncLogger']))
            cfg.add(p + S('tags'), '_c15big')
            for i in range(n):
                cfg.add(p + (Seg('appender ref', i), Seg('ref')), 'm%d' % i)
                if r.random() < 0.3:
                    cfg.add(p + (Seg('appender ref', i), Seg('level')), r.choice(LEVELS))
        if r.random() < 0.2:
            cfg.add(S('enable caller'), r.choice(GOOD_BOOL).strip())
        if r.random() < 0.2:
            cfg.add(S('fast caller'), r.choice(GOOD_BOOL).strip())
        if r.random() < 0.2:
            cfg.add(S('buffer cap'), r.choice(['10KB', '4kb', '1 MB', '512B', '0B', '8KB ']))
        # ${} substitution: move some values to top-level properties
        for i in range(len(cfg.items)):
            segs, v = cfg.items[i]
            if len(segs) >= 3 and segs[-1].words != ['type'] and r.random() < 0.12:
                words = ['prop', 'v%d' % i]
                cfg.items[i] = (segs, r.choice(['${%s}', ' ${%s} ', '${%s}']) % spell(words, r.choice(STYLES)))
                cfg.add((Seg(words),), v.strip() if v.strip() else v)
                if v != v.strip() or v == '':
                    # the substituted value is not trimmed again / an empty top-level value: keep the literal instead
                    cfg.items.pop()
                    cfg.items[i] = (segs, v)
        return cfg

    def renderings(self, cfg, n=3):
        """n equivalent renderings of a canonical configuration (dicts key -> value)"""
        r = self.rng
        outs = [cfg.render_flat(r, 'camel')]
        subs = cfg.subtrees()
        for _ in range(n - 1):
            if subs and r.random() < 0.7:
                chosen = []
                for p in r.sample(subs, min(len(subs), r.randint(1, 3))):
                    if not any(is_prefix_segs(q, p) or is_prefix_segs(p, q) for q in chosen):
                        chosen.append(p)
                outs.append(cfg.render_inline(r, chosen))
            else:
                outs.append(cfg.render_flat(r))
        return [o for o in outs if unambiguous(o)]

    # ---- mutations ----
    def mutate(self, m):
        """one random mutation of a rendered map; returns (map, description)"""
        r = self.rng
        m = dict(m)
        keys = sorted(m)
        if not keys:
            return {'appender': 'x'}, 'empty'
        k = r.choice(keys)
        ck = camel(k)
        kind = r.choice(['delete', 'value', 'value', 'value', 'key', 'conflict', 'dangling', 'type', 'elemtype', 'extra'])
        if kind == 'delete':
            del m[k]
            return m, 'delete ' + k
        if kind == 'value':
            last = ck.split('.')[-1]
            if last == 'fileDir' or ck == 'fileDir':
                m[k] = r.choice(['./logs', 'logs', ' ./logs '])
                return m, 'filedir ' + k
            if last == 'fileName':
                m[k] = r.choice(['f-%d.log' % r.randint(0, 9), 'x.log'])
                return m, 'filename ' + k
            pool = {'maxAge': BAD_INT + GOOD_INT + ['2147483648', '-2147483649', '4294967297'],
                    'fileLineLength': BAD_INT + GOOD_INT + ['9223372036854775808', '-9223372036854775809'],
                    'bufferSize': BAD_INT + ['99', '100', '-1', '0', '4611686018427387904', '9223372036854775807', '16777216', '16777217'],
                    'separate': BAD_BOOL + GOOD_BOOL, 'async': BAD_BOOL + GOOD_BOOL,
                    'enableCaller': BAD_BOOL + GOOD_BOOL, 'fastCaller': BAD_BOOL + GOOD_BOOL,
                    'bufferCap': ['10', 'KB', '10GB', '1.5KB', '-1KB', '9223372036854775808B', '٣KB', '10 K B', '1kb', '0x10KB'],
                    'level': BAD_LEVEL + LEVELS, 'bufferFullPolicy': BAD_POLICY + ['Block'], 'rotation': BAD_ROT + ROTATIONS,
                    'type': ['Nope', '', 'console', 'Logger', 'File', 'TextLayout', '{}', '<nil>', ' Console'],
                    'ref': ['nope', '', 'A', '[]'], 'tags': ['', ' , ', 'a*', '_*', 'app_*', '*', 'x_*_y', 'app_*,app_*'],
                    }.get(last, ['', '{}', '[]', '<nil>', '${nope}', '${', '${}', '$}', ' x ', '\udcff\udcfe'])
            m[k] = r.choice(pool)
            return m, 'value %s := %r' % (k, m[k])
        if kind == 'key':
            v = m.pop(k)
            pos = r.randint(0, len(k))
            op = r.choice(['ins', 'ins', 'del', 'dup'])
            if op == 'ins':
                k2 = k[:pos] + r.choice([' ', '.', '[', ']', '!', '[0]', '[x]', '..', '-', '_', 'A', '\u00e9', '\udcc3', '[18446744073709551616]', '[007]']) + k[pos:]
            elif op == 'del':
                k2 = k[:pos] + k[pos + 1:]
            else:
                k2 = k + r.choice(['.x', '[0]', '!', '.type'])
            m[k2] = v
            return m, 'key %r -> %r' % (k, k2)
        if kind == 'conflict':
            parts = k.split('.')
            if len(parts) > 1:
                cut = '.'.join(parts[:r.randint(1, len(parts) - 1)])
                m[cut] = r.choice(['x', '{}', '[]', '<nil>', ''])
                return m, 'conflict %r' % cut
            m[k + '.sub'] = 'x'
            return m, 'conflict-below %r' % k
        if kind == 'dangling':
            refs = [kk for kk in keys if camel(kk).endswith('.ref')]
            if refs:
                kk = r.choice(refs)
                m[kk] = r.choice(['missing', m[kk].upper(), m[kk] + ' x'])
                return m, 'dangling ' + kk
            return m, 'none'
        if kind == 'elemtype':
            # the plugin type of one entry of an element list (any index), or of a single element
            import re
            elems = sorted({re.sub(r'\.[^.\]]+$', '', kk) for kk in keys if re.search(r'(?i)appender[-_]?ref(\[\d+\])?\.[^.]+$', kk)})
            if elems:
                e = r.choice(elems)
                m[e + '.type'] = r.choice(['Bogus', 'AppenderRef', 'appenderRef', '', 'Console'])
                return m, 'elemtype %s := %r' % (e, m[e + '.type'])
            return m, 'none'
        if kind == 'type':
            for kk in r.sample(keys, len(keys)):
                if camel(kk).endswith('.type'):
                    m[kk] = r.choice(['Nope', 'console', '', 'AsyncLogger', 'RollingFile', 'Discard', 'JSONLayout'])
                    return m, 'type %s := %r' % (kk, m[kk])
            return m, 'none'
        m[r.choice(['appender', 'logger', 'appender.', '[0]', 'logger[0].type', 'appender.z.type', 'logger.z.type', 'appender.z!', 'logger.q!', 'x!', '!', 'appender.a.layout!'])] = \
            r.choice(['x', '{}', 'Console', 'Console{}', 'Logger{tags=_q, appenderRef.ref=a}', 'Logger{tags=_q', 'File{fileName="a b.log"}', 'T{a=1,a=2}', '', '  ', 'TextLayout{fileLineLength=5}', 'AsyncLogger{tags=_zz,appenderRef[0].ref=a,bufferSize=4611686018427387904}'])
        return m, 'extra'


def is_prefix_segs(p, q):
    return len(p) <= len(q) and all(same_seg(a, b) for a, b in zip(p, q))


def unambiguous(m):
    """no two keys with the same normalised form (the result would depend on Go's map iteration order)"""
    seen = set()
    for k in m:
        c = camel(k)
        if c in seen:
            return False
        seen.add(c)
    return True


def encode(m):
    if not m:
        return '@'
    return ' '.join(hx(k.encode('utf-8', 'surrogateescape') if isinstance(k, str) else k) + ':' + hx(v.encode('utf-8', 'surrogateescape') if isinstance(v, str) else v)
                    for k, v in m.items())


def vt_case(rng):
    """a storage for the harness-defined plugin VtAll (every element shape and attribute kind) under prefix p"""
    r = rng
    m = {}
    if r.random() < 0.9:
        m['p.title'] = r.choice(['hello', '', ' spaced ', '${t}', '${missing}', '{}'])
    if r.random() < 0.3:
        m['t'] = r.choice(['from-prop', ' x '])
    if r.random() < 0.5:
        m[r.choice(['p.wide_value', 'p.wideValue', 'p.wide-value', 'P.Wide_Value'])] = r.choice(GOOD_INT + BAD_INT + ['4294967295', '4294967296', '-1', '+7'])
    if r.random() < 0.4:
        m['p.tiny'] = r.choice(['-128', '127', '128', '-129', '0x7f', '-0x80', '0b1111111', 'x'])
    if r.random() < 0.4:
        m['p.flag'] = r.choice(GOOD_BOOL + BAD_BOOL)
    if r.random() < 0.3:
        m['p.policy'] = r.choice(['Block', 'Discard', 'DiscardOldest'] + BAD_POLICY)
    if r.random() < 0.3:
        m['p.rot'] = r.choice(ROTATIONS + BAD_ROT)
    k = r.random()
    if k < 0.25:       # single Items element
        m['p.vtItem.label'] = r.choice(['one', ''])
        if r.random() < 0.5:
            m['p.vtItem.type'] = r.choice(['VtItem', 'VtItemA', 'VtItemB', 'Nope', ':def:'])
    elif k < 0.55:     # indexed
        for i in range(r.randint(1, 3)):
            if r.random() < 0.7:
                m['p.vt_item[%d].type' % i] = r.choice(['VtItem', 'VtItemA', 'VtItemB', 'Nope'])
            if r.random() < 0.6:
                m['p.vtItem[%d].%s' % (i, r.choice(['label', 'count', 'weight', 'on', 'level']))] = r.choice(['7', 'x', 'true', 'INFO', '300', '32767', '32768'])
        if r.random() < 0.2:
            m['p.vtItem[%d].label' % r.choice([2, 5])] = 'gap'
    # One (required interface)
    if r.random() < 0.85:
        m['p.vtItem.type' if 'p.vtItem.label' in m or r.random() < 0.5 else 'p.vt-item.type'] = r.choice(['VtItem', 'VtItemA', 'VtItemB', 'Nope'])
    if r.random() < 0.3:
        m['p.vtOpt.type'] = r.choice(['VtOpt', 'VtItemB', 'VtItemA'])
    if r.random() < 0.2:
        m['p.vtOpt[0].on'] = r.choice(['true', 'maybe'])
    if r.random() < 0.1:
        m['p.vtOpt!'] = r.choice(['VtItemB{on=false, level=WARN}', 'VtOpt{label="x y"}', 'VtItemB{on=2}'])
    if not unambiguous(m):
        return vt_case(rng)
    # vtItem both indexed and keyed conflicts are fine (toStorage reports them)
    return m
