"""C13 - rolling file appender loses nothing across rotations and never truncates."""
import shutil
import common, rollgen


def run_sequential(run, name, scenarios, rule):
    tmp = common.scratch_dir('c13')
    try:
        common.write_lines(tmp + '/c', scenarios)
        rc, li = common.run_impl('c13', tmp + '/c', tmp + '/i', timeout=600)
        io = common.read_lines(tmp + '/i')
        run.obligations += 1
        if rc != 0 or len(io) != len(scenarios):
            run.add_violation('harness-error', 'c13 rc=%s lines=%d/%d %s' % (rc, len(io), len(scenarios), li[-1500:]), [li[-2000:]], no_input=True)
            return
        mcases, iobs, kept = [], [], []
        discarded = 0
        for c, o in zip(scenarios, io):
            mc, il, notes = rollgen.to_model_case(c, o)
            if 'panic' in notes or 'blocked' in notes:
                run.add_violation('oracle:' + name, 'an appender call panicked or blocked: ' + notes, ['family c13', 'case ' + c, 'impl ' + o[:1500]])
                continue
            if mc is None or 'straddle' in notes:
                discarded += 1      # a write straddled a second boundary: its interval is ambiguous, the scenario is not compared
                continue
            mcases.append(mc); iobs.append(il); kept.append(c)
        common.write_lines(tmp + '/m', mcases)
        okm, lm = common.run_model('c13', tmp + '/m', tmp + '/mo')
        mo = common.read_lines(tmp + '/mo')
        if not okm or len(mo) != len(mcases):
            run.add_violation('harness-error', 'c13 model: %s' % lm[-800:], [lm[-1500:]], no_input=True)
            return
        nbad = 0
        for c, mc, m, i in zip(kept, mcases, mo, iobs):
            if m != i:
                nbad += 1
                if nbad <= 3:
                    run.add_violation('mismatch:' + name, 'the directory after the history differs from the verified model\n scenario: %s\n history : %s\n impl : %s\n model: %s' % (c, mc, i[:600], m[:600]),
                                      ['family c13', 'case ' + c, 'history ' + mc, 'impl ' + i, 'model ' + m])
        if nbad == 0:
            run.discharged += 1
        nontriv = sum(1 for m in mo if m.count('=') >= 3)
        run.stream(name, len(mcases), nontriv, False, rule + ' (%d scenarios discarded because a write straddled a second boundary); non-trivial = at least two files in the directory' % discarded)
        if mcases:
            run.coverage['samples'].append({'stream': name, 'case': kept[0], 'observation': iobs[0][:300]})
    finally:
        shutil.rmtree(tmp, ignore_errors=True)


def concurrent_oracle(case, obs, allow_outage=False):
    parts = obs.split(' | ')
    if len(parts) < 2:
        return obs[:100]
    done, listing, notes = parts[0], parts[1], parts[2] if len(parts) > 2 else ''
    if notes.strip():
        return notes
    completed = dict(d.split(':') for d in done.split())
    seen = {}
    for f in listing.split(';'):
        if not f:
            continue
        if f.startswith('FOREIGN'):
            return 'unexpected file ' + f
        name, ids = f.split('=')
        for x in ids.split(','):
            if not x:
                continue
            if x.startswith('TORN'):
                return 'torn line in file %s: %s' % (name, x)
            if x in seen:
                return 'payload %s present twice' % x
            seen[x] = int(name)
    missing = [x for x in completed if x not in seen]
    if missing:
        return '%d of %d completed writes are in no file (first: %s)' % (len(missing), len(completed), missing[0])
    for x, name in seen.items():
        if x in completed and int(completed[x]) < name:
            return 'file named %d contains write %s that completed at %s' % (name, x, completed[x])
    return 'ok'


def run_concurrent(run, name, cases, rule):
    tmp = common.scratch_dir('c13c')
    try:
        common.write_lines(tmp + '/c', cases)
        rc, li = common.run_impl('c13c', tmp + '/c', tmp + '/i', timeout=900)
        io = common.read_lines(tmp + '/i')
        run.obligations += 1
        if rc != 0 or len(io) != len(cases):
            run.add_violation('harness-error', 'c13c rc=%s %s' % (rc, li[-1000:]), [li[-2000:]], no_input=True)
            return
        bad = [(c, o, concurrent_oracle(c, o)) for c, o in zip(cases, io)]
        bad = [b for b in bad if b[2] != 'ok']
        for c, o, v in bad[:3]:
            run.add_violation('oracle:' + name, v, ['family c13c', 'case ' + c, 'impl ' + o[-1500:], 'verdict ' + v])
        if not bad:
            run.discharged += 1
        total = sum(len(o.split(' | ')[0].split()) for o in io)
        run.stream(name, len(cases), len(cases), False, rule + ' (%d writes in total)' % total)
        run.coverage['samples'].append({'stream': name, 'case': cases[0], 'observation': io[0][-300:]})
    finally:
        shutil.rmtree(tmp, ignore_errors=True)


def run_start_at_boundary(run, name, cases):
    tmp = common.scratch_dir('c13s')
    try:
        common.write_lines(tmp + '/c', cases)
        rc, li = common.run_impl('c13s', tmp + '/c', tmp + '/i', timeout=900)
        io = common.read_lines(tmp + '/i')
        run.obligations += 1
        if rc != 0 or len(io) != len(cases):
            run.add_violation('harness-error', 'c13s rc=%s %s' % (rc, li[-1000:]), [li[-2000:]], no_input=True)
            return
        bad = [(c, o) for c, o in zip(cases, io) if len(o.split()) < 3 or o.split()[2] != '0']
        for c, o in bad[:3]:
            run.add_violation('oracle:' + name, 'a write issued one at a time after an interval boundary is not in the file named for the new interval (appender started at the boundary): ' + o[:400],
                              ['family c13s', 'case ' + c, 'impl ' + o[:1500]])
        if not bad:
            run.discharged += 1
        starts = sum(int(o.split()[0]) for o in io if o.split())
        straddles = sum(int(o.split()[1]) for o in io if len(o.split()) > 1)
        run.stream(name, starts, straddles, False, 'fresh appenders started back to back across real 1 s boundaries (from 300 us before to 150 us after), one write to each 250 ms after the boundary; '
                   'oracle: the line is in exactly one file and that file is named for the second of the write; non-trivial = Start calls that began before the boundary and returned after it')
        run.coverage['samples'].append({'stream': name, 'case': cases[0], 'observation': io[0][:300]})
    finally:
        shutil.rmtree(tmp, ignore_errors=True)


def check(run):
    rng = run.rng
    quick = run.tier == 'quick'
    scen = common.corpus('C13') + [rollgen.seq_scenario(rng) for _ in range(40 if quick else 600)]
    # restarts within one second whose new lifetime writes nothing before it ends or before the file is retired
    scen += ['1 S w1:5 X S X S w2:5', '1 S w1:5 X S B w2:5', '2 P0 S w1:5 X S B B w2:5', '1 pre S X S w1:3', '1 S w1:9 w2:9 X S X S X S w3:3', '1 S w1:5 X S B B w2:5 X S X S w3:3']
    run_sequential(run, 'c13/sequential', scen,
        'sequential histories against REAL interval boundaries (1 s / 2 s rotations): writes of 0 B - 64 KiB, waits across 1-6 boundaries, idle intervals, stop/start cycles (also lifetimes that write nothing), '
        'a pre-existing file named for the current second; the observed history (operation @ second) is replayed on the model and the final directory (file name -> payload ids in order) compared')
    cc = ['%d %d %d %d 0 0' % (rng.choice([1, 1, 2]), rng.choice([1, 2, 4, 8, 16]), rng.choice([2, 3, 4]), rng.choice([0, 40, 2000])) for _ in range(10 if quick else 200)]
    # large lines (32 KiB .. 64 KiB and a little beyond), writers calling on a common beat
    cc += ['1 %d 2 %d 0 0' % (nw_, ms_) for nw_, ms_ in ([(4, 65536), (12, 70000)] if quick else [(2, 65536), (4, 65536), (8, 40000), (12, 70000), (16, 65536)])]
    run_concurrent(run, 'c13/concurrent', cc,
        '1-16 concurrent writers crossing 2-4 real boundaries, line sizes 0 B - 2 KB continuously and 32-70 KB on a common beat; oracle: every completed write whole, exactly once, in exactly one file app.log.<14 digits>, and no file contains a write completed before the second in its name')
    run_start_at_boundary(run, 'c13/start-at-boundary', ['%d 256' % (3 if quick else 40)])
    return 'see streams'


def replay(run, path):
    lines = common.read_lines(path)
    cases = [l[5:] for l in lines if l.startswith('case ')]
    fam = 'c13s' if any('family c13s' in l for l in lines) else 'c13c' if any('family c13c' in l for l in lines) else 'c13'
    r = common.Run('C13', 'quick', 0)
    if fam == 'c13':
        run_sequential(r, 'c13/replay', cases, 'replay')
    elif fam == 'c13s':
        run_start_at_boundary(r, 'c13/replay', cases)
    else:
        run_concurrent(r, 'c13/replay', cases, 'replay')
    for v in r.violations:
        print(v['detail'])
    if r.violations:
        print('VIOLATION property=C13 replay=' + path)
    return 1 if r.violations else 0
